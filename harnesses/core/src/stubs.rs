//! Environment stubs shared by the core harnesses (listed in evidence under `stubs`).

/// R3: formatting is cut (error-path only; output never inspected).
pub fn fmt_format(_args: core::fmt::Arguments<'_>) -> String {
    String::new()
}
