//! C02-D3: shard routing is a pure function of the scope id, in range, and exactly the frozen formula.
use crate::kani;
use warp_core::{shard_of, NodeId, NUM_SHARDS};

//@ tier=quick timeout=120 bits=256 fns=warp_core::parallel::shard::shard_of
//@ desc="for all 2^256 scope ids: shard_of(id) == LE_u64(id[0..8]) & 255 == id[0], < NUM_SHARDS, and depends on no byte after the first"
proof! {
    fn c02_shard_of_frozen_formula() {
        let a: [u8; 32] = kani::any();
        let s = shard_of(&NodeId(a));
        assert!(s < NUM_SHARDS);
        assert!(s == a[0] as usize);
        let mut b: [u8; 32] = kani::any();
        b[0] = a[0];
        assert!(shard_of(&NodeId(b)) == s);
        reach!();
    }
}
