//! C02-D3: shard routing is a pure function of the scope id, in range, and exactly the frozen formula.
use crate::kani;
use warp_core::{shard_of, NodeId, NUM_SHARDS};

//@ tier=quick timeout=120 bits=256 fns=warp_core::parallel::shard::shard_of
//@ desc="for all 2^256 scope ids: shard_of(id) == LE_u64(id[0..8]) & 255 == id[0], < NUM_SHARDS, and depends on no byte after the first"
proof! {
    fn c02_shard_of_frozen_formula() {
        let a: [u8; 32] = kani::any();
        let s = shard_of(&NodeId(a));
        assert!(s < NUM_SHARDS);
        assert!(s == a[0] as usize);
        let mut b: [u8; 32] = kani::any();
        b[0] = a[0];
        assert!(shard_of(&NodeId(b)) == s);
        reach!();
    }
}

fn noop_exec(_v: warp_core::GraphView<'_>, _scope: &NodeId, _d: &mut warp_core::TickDelta) {}

//@ tier=off timeout=900 mem=10 bits=512 unwind=258 fns=warp_core::parallel::shard::partition_into_shards,warp_core::parallel::shard::shard_of
//@ bounds="two rewrites whose 32-byte scope ids are fully symbolic; 256 virtual shards"
//@ desc="partitioning routes every rewrite to exactly the shard shard_of(scope) names: nothing is dropped or duplicated, rewrites of one shard keep their input order, every other shard stays empty"
proof! {
    fn c02_partition_routes_every_item_once() {
        use warp_core::parallel::shard::partition_into_shards;
        let (sa, sb): ([u8; 32], [u8; 32]) = (kani::any(), kani::any());
        let items = [
            warp_core::ExecItem::new(noop_exec, NodeId(sa), warp_core::OpOrigin::default()),
            warp_core::ExecItem::new(noop_exec, NodeId(sb), warp_core::OpOrigin::default()),
        ];
        let shards = partition_into_shards(&items);
        assert!(shards.len() == NUM_SHARDS);
        let (ha, hb) = (shard_of(&NodeId(sa)), shard_of(&NodeId(sb)));
        let mut total = 0;
        let mut i = 0;
        while i < NUM_SHARDS {
            let n = shards[i].items.len();
            total += n;
            let want = (i == ha) as usize + (i == hb) as usize;
            assert!(n == want, "a shard holds a rewrite that does not route to it, or misses one that does");
            i += 1;
        }
        assert!(total == 2);
        assert!(shards[ha].items[0].scope == NodeId(sa), "rewrites of one shard are not in input order");
        core::mem::forget((shards, items));
        reach!();
    }
}
