//! Kani harnesses over `warp-core` kernels. See /verif/DESIGN.md section 4.
#![allow(dead_code, unused_imports, clippy::all)]
include!("../../common/macros.rs");

#[cfg(not(kani))]
#[path = "../../common/shim.rs"]
pub mod shim;
#[cfg(not(kani))]
pub(crate) use shim as kani;
#[cfg(kani)]
pub(crate) use ::kani;

pub mod stubs;
pub mod c02_shard;
pub mod c03_sortkey;
pub mod c18_reduce;
pub mod c03_conflict;
pub mod hashmodel;
pub mod c05_commit;
pub mod c08_ingress;
pub mod c12_walrec;
pub mod c14_guard;
pub mod c01_merge;
pub mod c05_patch;
pub mod c04_diff;
pub mod c06_root;
pub mod c18_emissions;
pub mod c12_frame;

#[cfg(not(kani))]
include!(concat!(env!("OUT_DIR"), "/registry.rs"));
