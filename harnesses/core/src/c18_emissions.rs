//! C18-D3: the emissions digest is a function of the *set* of finalized channels (it sorts by
//! channel id before hashing) and binds channel id, data length and data bytes.
//! BLAKE3 is the transcript model (R2).
use crate::kani;
use warp_core::compute_emissions_digest;
use warp_core::materialization::FinalizedChannel;
use warp_core::TypeId;

fn eq32(a: &[u8; 32], b: &[u8; 32]) -> bool {
    let mut i = 0;
    let mut same = true;
    while i < 32 { if a[i] != b[i] { same = false; } i += 1; }
    same
}

/// Channel with a symbolic 32-byte id and `n` (concrete) symbolic data bytes.
fn chan(n: usize) -> FinalizedChannel {
    let id: [u8; 32] = kani::any();
    let d: [u8; 2] = kani::any();
    FinalizedChannel { channel: TypeId(id), data: d[..n].to_vec() }
}

fn dup(c: &FinalizedChannel) -> FinalizedChannel { FinalizedChannel { channel: c.channel, data: c.data.clone() } }

//@ tier=off timeout=1500 mem=12 bits=600 unwind=6 unwindset="hashmodel=520;eq32=33;memcmp=34" fns=warp_core::snapshot::compute_emissions_digest
//@ bounds="two finalized channels with fully symbolic ids (equal or different) and data of the length pairs (0,2), (1,1), (2,1) (concrete loop, symbolic bytes); both list orders"
//@ desc="emissions digest is identical for both orders of the channel list, whatever the ids and data are"
proof_h! {
    fn c18_emissions_digest_order_free() {
        const L: [(usize, usize); 3] = [(0, 2), (1, 1), (2, 1)];
        let mut k = 0;
        while k < 3 {
            #[cfg(kani)]
            crate::hashmodel::reset();
            let (a, b) = (chan(L[k].0), chan(L[k].1));
            let d1 = compute_emissions_digest(&[dup(&a), dup(&b)]);
            let d2 = compute_emissions_digest(&[dup(&b), dup(&a)]);
            // equal ids: the sort is stable on a tie, so the two orders may legitimately hash
            // different data first; the bus never produces two finalized entries for one channel
            if !eq32(&a.channel.0, &b.channel.0) {
                assert!(eq32(&d1, &d2), "emissions digest depends on the order channels were finalized in");
            }
            core::mem::forget((a, b));
            k += 1;
        }
        reach!();
    }
}

//@ also=C05 tier=quick timeout=1500 mem=12 bits=600 unwind=7 unwindset="hashmodel=520;eq32=33;memcmp=34" fns=warp_core::snapshot::compute_emissions_digest
//@ bounds="two one-channel reports; ids fully symbolic; data lengths (1,1), (1,2), (2,2), (0,1), (0,0) with symbolic bytes"
//@ desc="emissions digest (bound into the tick commit id) binds channel id, data length and data bytes, also for channels that finalized with no bytes: equal digests <=> equal id, length and bytes"
proof_h! {
    fn c18_emissions_digest_binds_channel_and_data() {
        const L: [(usize, usize); 5] = [(1, 1), (1, 2), (2, 2), (0, 1), (0, 0)];
        let mut k = 0;
        while k < 5 {
            #[cfg(kani)]
            crate::hashmodel::reset();
            let (a, b) = (chan(L[k].0), chan(L[k].1));
            let same = eq32(&a.channel.0, &b.channel.0) && a.data.len() == b.data.len()
                && (a.data.len() < 1 || a.data[0] == b.data[0]) && (a.data.len() < 2 || a.data[1] == b.data[1]);
            let d1 = compute_emissions_digest(core::slice::from_ref(&a));
            let d2 = compute_emissions_digest(core::slice::from_ref(&b));
            assert!(eq32(&d1, &d2) == same, "emissions digest does not bind exactly (channel, length, bytes)");
            core::mem::forget((a, b));
            k += 1;
        }
        reach!();
    }
}
