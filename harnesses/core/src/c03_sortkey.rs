//! C03-D1: the 20 radix digits, most significant first, order thin records exactly as
//! `cmp_thin` does, and `cmp_thin` is the byte-lexicographic (scope, rule, nonce) order.
use crate::kani;
use core::cmp::Ordering;
use warp_core::verif_hooks::{thin_bucket16, thin_cmp};

/// Statement's own wording: ascending byte order of scope, then rule id, then (tie rule) nonce.
fn reference_order(a: (&[u8; 32], u32, u32), b: (&[u8; 32], u32, u32)) -> Ordering {
    let mut i = 0;
    while i < 32 {
        if a.0[i] < b.0[i] { return Ordering::Less; }
        if a.0[i] > b.0[i] { return Ordering::Greater; }
        i += 1;
    }
    if a.1 != b.1 { return if a.1 < b.1 { Ordering::Less } else { Ordering::Greater }; }
    if a.2 != b.2 { return if a.2 < b.2 { Ordering::Less } else { Ordering::Greater }; }
    Ordering::Equal
}

//@ tier=quick timeout=600 bits=640 fns=warp_core::scheduler::cmp_thin,warp_core::scheduler::bucket16,warp_core::scheduler::u16_be_from_pair32,warp_core::scheduler::u16_from_u32_le unwindset=memcmp=34
//@ bounds="all pairs of 40-byte keys (32-byte scope, u32 rule, u32 nonce): 2^640 inputs; 20 passes"
//@ desc="cmp_thin(a,b) == lexicographic comparison of the radix digits pass 19 down to 0 == byte order of (scope, rule, nonce); so a stable LSD pass sequence 0..19 sorts exactly as cmp_thin"
proof! {
    #[cfg_attr(kani, kani::unwind(34))]
    fn c03_digit_order_equals_cmp() {
        let sa: [u8; 32] = kani::any();
        let sb: [u8; 32] = kani::any();
        let a = (&sa, kani::any::<u32>(), kani::any::<u32>());
        let b = (&sb, kani::any::<u32>(), kani::any::<u32>());
        let c = thin_cmp(a, b);
        // most significant digit first
        let mut d = Ordering::Equal;
        let mut pass = 20;
        while pass > 0 {
            pass -= 1;
            if d == Ordering::Equal {
                let (x, y) = (thin_bucket16(a, pass), thin_bucket16(b, pass));
                if x < y { d = Ordering::Less; } else if x > y { d = Ordering::Greater; }
            }
        }
        assert!(c == d, "radix digit order differs from cmp_thin");
        assert!(c == reference_order(a, b), "cmp_thin is not byte order of (scope, rule, nonce)");
        assert!(thin_cmp(b, a) == c.reverse(), "cmp_thin not antisymmetric");
        reach!();
    }
}
