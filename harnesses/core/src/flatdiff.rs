// Translator validation for the R6 container model (not a deciding step): drives
// `warp_core::verif_flat::{BTreeMap, BTreeSet}` and the std containers through the same
// pseudo-random operation sequences (bounded to the model's capacity) and compares every
// observable result. Built only with `--features flat`; run by setup.sh.
use std::collections::{BTreeMap as SMap, BTreeSet as SSet};
use warp_core::verif_flat::{BTreeMap as FMap, BTreeSet as FSet, CAP};

fn main() {
    let mut x: u64 = 0x9e37_79b9_7f4a_7c15;
    let mut rnd = move || { x ^= x << 13; x ^= x >> 7; x ^= x << 17; x };
    let rounds: usize = std::env::args().nth(1).and_then(|s| s.parse().ok()).unwrap_or(100_000);
    for _ in 0..rounds {
        let (mut fm, mut sm): (FMap<u8, u16>, SMap<u8, u16>) = (FMap::new(), SMap::new());
        let (mut fs, mut ss): (FSet<u8>, SSet<u8>) = (FSet::new(), SSet::new());
        for _ in 0..12 {
            let r = rnd();
            let (k, v) = ((r >> 8) as u8 % 6, (r >> 16) as u16);
            match r % 8 {
                0 | 1 => { if sm.len() < CAP || sm.contains_key(&k) { assert_eq!(fm.insert(k, v), sm.insert(k, v)); } }
                2 => assert_eq!(fm.remove(&k), sm.remove(&k)),
                3 => assert_eq!(fm.get(&k), sm.get(&k)),
                4 => { if sm.len() < CAP || sm.contains_key(&k) { *fm.entry(k).or_default() += 1; *sm.entry(k).or_default() += 1; } }
                5 => { if ss.len() < CAP || ss.contains(&k) { assert_eq!(fs.insert(k), ss.insert(k)); } }
                6 => assert_eq!(fs.remove(&k), ss.remove(&k)),
                _ => assert_eq!(fs.contains(&k), ss.contains(&k)),
            }
            assert_eq!(fm.len(), sm.len());
            assert!(fm.iter().map(|(a, b)| (*a, *b)).eq(sm.iter().map(|(a, b)| (*a, *b))));
            assert!(fm.keys().copied().eq(sm.keys().copied()));
            assert!(fs.iter().copied().eq(ss.iter().copied()));
            assert_eq!(fm.first_key_value(), sm.first_key_value());
            assert_eq!(fs.len(), ss.len());
            let (fc, sc) = (fm.clone(), sm.clone());
            assert!(fc == fm && fc.into_iter().eq(sc.into_iter()));
        }
    }
    println!("flatdiff ok: {rounds} sequences of 12 operations, model == std on every observation");
}
