//! C12-L1/L2 and C13 for the fixed-layout write-ahead-log payload records
//! (`warp_core::causal_wal::*::{to_payload_bytes, from_payload_bytes}`) and the
//! canonical causal receipt coordinate. Every byte of the image is symbolic.
use crate::kani;
use warp_core::causal_wal::{
    CheckpointPublicationRecord, CheckpointRecord, MaterializationIntentRecord, MaterializationObservationRecord,
    ReadingRefRecord, RetainedMaterialRecord, SubmissionAcceptanceRecord, TickReceiptRecord,
};
use warp_core::{CausalTickReceiptRef, CAUSAL_TICK_RECEIPT_REF_LEN};

/// accepted => canonical, and (round trip) the decoded value re-decodes from its own encoding.
macro_rules! wal_l1 {
    ($name:ident, $ty:ty, $n:expr) => { wal_l1!($name, $ty, $n, |_b: &mut [u8; $n]| {}); };
    ($name:ident, $ty:ty, $n:expr, $pin:expr) => {
        proof! {
            fn $name() {
                let mut buf: [u8; $n] = kani::any();
                ($pin)(&mut buf);
                let len: usize = kani::any();
                kani::assume(len <= $n);
                if let Ok(v) = <$ty>::from_payload_bytes(&buf[..len]) {
                    let out = v.to_payload_bytes();
                    assert!(out.len() == len, "accepted record re-encodes to a different length");
                    // one bulk copy out of the (re-allocated) Vec, then a plain array comparison
                    let mut flat = [0u8; $n];
                    flat[..len].copy_from_slice(&out);
                    let mut i = 0;
                    while i < $n {
                        if i < len { assert!(flat[i] == buf[i], "accepted record re-encodes to different bytes"); }
                        i += 1;
                    }
                    match <$ty>::from_payload_bytes(&out) {
                        Ok(v2) => assert!(v2 == v, "decode(encode(v)) != v"),
                        Err(_) => assert!(false, "encoding of a decoded record does not decode"),
                    }
                    core::mem::forget(out);
                }
                reach!();
            }
        }
    };
}

/// As `wal_l1`, for concrete total lengths (shape concrete, content symbolic).
macro_rules! wal_l1c {
    ($name:ident, $ty:ty, $n:expr, [$($len:expr),*], $pin:expr) => {
        proof! {
            fn $name() {
                $(
                {
                    let mut buf: [u8; $n] = kani::any();
                    ($pin)(&mut buf);
                    let len: usize = $len;
                    if let Ok(v) = <$ty>::from_payload_bytes(&buf[..len]) {
                        let out = v.to_payload_bytes();
                        assert!(out.len() == len, "accepted record re-encodes to a different length");
                        let mut flat = [0u8; $n];
                        flat[..len].copy_from_slice(&out);
                        let mut i = 0;
                        while i < $n {
                            if i < len { assert!(flat[i] == buf[i], "accepted record re-encodes to different bytes"); }
                            i += 1;
                        }
                        match <$ty>::from_payload_bytes(&out) {
                            Ok(v2) => assert!(v2 == v, "decode(encode(v)) != v"),
                            Err(_) => assert!(false, "encoding of a decoded record does not decode"),
                        }
                        core::mem::forget(out);
                    }
                }
                )*
                reach!();
            }
        }
    };
}

//@ also=C13 tier=off timeout=900 mem=8 bits=1040 unwind=4 unwindset="c12_walrec=164;memcmp=34" fns=warp_core::causal_wal::SubmissionAcceptanceRecord::from_payload_bytes,SubmissionAcceptanceRecord::to_payload_bytes,WalPayloadCursor::read_hash,read_optional_hash,finish
//@ bounds="every byte string of length 128, 129 (valid) and 130 whose option tag (byte 64) is 0"
//@ desc="submission acceptance record without idempotency key: accepted => re-encodes to exactly the same bytes; short and trailing input rejected"
wal_l1c!(c12_wal_submission_acceptance_none, SubmissionAcceptanceRecord, 130, [128, 129, 130], |b: &mut [u8; 130]| b[64] = 0);

//@ also=C13 tier=off timeout=900 mem=8 bits=1296 unwind=4 unwindset="c12_walrec=164;memcmp=34" fns=warp_core::causal_wal::SubmissionAcceptanceRecord::from_payload_bytes,SubmissionAcceptanceRecord::to_payload_bytes,WalPayloadCursor::read_hash,read_optional_hash,finish
//@ bounds="every byte string of length 160, 161 (valid) and 162 whose option tag (byte 64) is 1"
//@ desc="submission acceptance record with idempotency key: accepted => re-encodes to exactly the same bytes"
wal_l1c!(c12_wal_submission_acceptance_some, SubmissionAcceptanceRecord, 162, [160, 161, 162], |b: &mut [u8; 162]| b[64] = 1);

//@ also=C13 tier=quick timeout=600 mem=8 bits=1304 unwind=4 fns=warp_core::causal_wal::SubmissionAcceptanceRecord::from_payload_bytes,WalPayloadCursor::read_optional_hash
//@ bounds="every byte string of length 65..=162 whose option tag (byte 64) is neither 0 nor 1"
//@ desc="submission acceptance record: an unknown option tag is rejected, never normalised"
proof! {
    fn c12_wal_submission_acceptance_bad_tag() {
        let buf: [u8; 162] = kani::any();
        let len: usize = kani::any();
        kani::assume(len >= 65 && len <= 162 && buf[64] >= 2);
        assert!(SubmissionAcceptanceRecord::from_payload_bytes(&buf[..len]).is_err());
        reach!();
    }
}

//@ also=C13 tier=quick timeout=900 mem=8 bits=1490 unwind=6 unwindset="c12_walrec=188;memcmp=34" fns=warp_core::causal_wal::TickReceiptRecord::from_payload_bytes,TickReceiptRecord::to_payload_bytes,WalTickDecision::from_code,CausalTickReceiptRef::from_canonical_bytes,CausalTickReceiptRef::to_canonical_bytes
//@ bounds="every byte string of length 0..=186 (valid length 185 = magic 8 + coordinate 176 + decision 1)"
//@ desc="tick receipt record: accepted => magic ETICK002, decision code in 1..=3, re-encodes to exactly the same bytes; decode(encode(v)) == v"
wal_l1!(c12_wal_tick_receipt, TickReceiptRecord, 186);

//@ also=C13 tier=quick timeout=600 mem=8 bits=536 unwind=4 unwindset="c12_walrec=70;memcmp=34" fns=warp_core::causal_wal::RetainedMaterialRecord::from_payload_bytes,RetainedMaterialRecord::to_payload_bytes,RetainedMaterialKind::from_code,EvidenceMaterialPosture::from_code
//@ bounds="every byte string of length 0..=67 (valid length 66)"
//@ desc="retained material record: accepted => enum codes valid and re-encodes to exactly the same bytes"
wal_l1!(c12_wal_retained_material, RetainedMaterialRecord, 67);

//@ also=C13 tier=quick timeout=600 mem=8 bits=1048 unwind=4 unwindset="c12_walrec=132;memcmp=34" fns=warp_core::causal_wal::ReadingRefRecord::from_payload_bytes,ReadingRefRecord::to_payload_bytes
//@ bounds="every byte string of length 0..=130 (valid length 129)"
//@ desc="reading reference record: accepted => re-encodes to exactly the same bytes"
wal_l1!(c12_wal_reading_ref, ReadingRefRecord, 130);

//@ also=C13 tier=quick timeout=900 mem=8 bits=1632 unwind=4 unwindset="c12_walrec=206;memcmp=34" fns=warp_core::causal_wal::CheckpointRecord::from_payload_bytes,CheckpointRecord::to_payload_bytes
//@ bounds="every byte string of length 0..=203 (valid length 202)"
//@ desc="checkpoint record: accepted => re-encodes to exactly the same bytes"
wal_l1!(c12_wal_checkpoint, CheckpointRecord, 203);

//@ also=C13 tier=quick timeout=600 mem=8 bits=528 unwind=4 unwindset="c12_walrec=68;memcmp=34" fns=warp_core::causal_wal::CheckpointPublicationRecord::from_payload_bytes,CheckpointPublicationRecord::to_payload_bytes
//@ bounds="every byte string of length 0..=65 (valid length 64)"
//@ desc="checkpoint publication record: accepted => re-encodes to exactly the same bytes"
wal_l1!(c12_wal_checkpoint_publication, CheckpointPublicationRecord, 65);

//@ also=C13 tier=quick timeout=900 mem=8 bits=1296 unwind=4 unwindset="c12_walrec=164;memcmp=34" fns=warp_core::causal_wal::MaterializationIntentRecord::from_payload_bytes,MaterializationIntentRecord::to_payload_bytes
//@ bounds="every byte string of length 0..=161 (valid length 160)"
//@ desc="materialization intent record: accepted => re-encodes to exactly the same bytes"
wal_l1!(c12_wal_materialization_intent, MaterializationIntentRecord, 161);

//@ also=C13 tier=quick timeout=600 mem=8 bits=784 unwind=4 unwindset="c12_walrec=100;memcmp=34" fns=warp_core::causal_wal::MaterializationObservationRecord::from_payload_bytes,MaterializationObservationRecord::to_payload_bytes
//@ bounds="every byte string of length 0..=97 (valid length 96)"
//@ desc="materialization observation record: accepted => re-encodes to exactly the same bytes"
wal_l1!(c12_wal_materialization_observation, MaterializationObservationRecord, 97);

//@ also=C08 tier=quick timeout=600 mem=8 bits=1408 unwind=6 unwindset="c12_walrec=180;memcmp=34" fns=warp_core::causal_receipt::CausalTickReceiptRef::from_canonical_bytes,CausalTickReceiptRef::to_canonical_bytes
//@ bounds="all 2^1408 images of the 176-byte causal receipt coordinate"
//@ desc="causal receipt coordinate: to_canonical_bytes(from_canonical_bytes(b)) == b for every b, and from(to(v)) == v - the encoding is a bijection, so the bytes hashed into a causal ingress id determine the cited coordinate"
proof! {
    fn c12_causal_receipt_ref_bijective() {
        let b: [u8; CAUSAL_TICK_RECEIPT_REF_LEN] = kani::any();
        let v = CausalTickReceiptRef::from_canonical_bytes(b);
        let o = v.to_canonical_bytes();
        let mut i = 0;
        while i < CAUSAL_TICK_RECEIPT_REF_LEN { assert!(o[i] == b[i]); i += 1; }
        assert!(CausalTickReceiptRef::from_canonical_bytes(o) == v);
        reach!();
    }
}

//@ also=C13 tier=off timeout=1500 mem=12 bits=280 unwind=4 unwindset="c12_walrec=20;memcmp=34;to_canonical_bytes=6;from_canonical_bytes=6" fns=warp_core::causal_wal::WalReceiptCorrelationRecord::from_payload_bytes,warp_core::causal_receipt::CausalTickReceiptRef::from_canonical_bytes
//@ bounds="receipt-correlation image of exact length 544: magic ERCOR002, fixed child coordinate, declared parent count 2, two parent coordinates symbolic in the last worldline byte, both 8-byte tick counters and the first commit-hash byte (the fields the canonical order compares first); remaining coordinate bytes fixed"
//@ desc="receipt-correlation record: accepted => the two cited parents are strictly ascending in the coordinate order the encoder sorts by (worldline, tick after, global tick, hashes - ticks compared as integers) - equal or descending parents are rejected, not normalised, and every strictly ascending pair is accepted"
proof! {
    fn c12_wal_receipt_correlation_parent_order() {
        use warp_core::causal_wal::WalReceiptCorrelationRecord;
        let mut img = [0x5au8; 544];
        let magic = *b"ERCOR002";
        let mut i = 0;
        while i < 8 { img[i] = magic[i]; i += 1; }
        let count = 2u64.to_le_bytes();
        let mut i = 0;
        while i < 8 { img[184 + i] = count[i]; i += 1; }
        // symbolic fields of parent k at offset 192 + 176*k: worldline[31], tick_after (8), global tick (8), commit_hash[0]
        let mut k = 0;
        while k < 2 {
            let off = 192 + 176 * k;
            img[off + 31] = kani::any();
            let t: [u8; 17] = kani::any();
            let mut j = 0;
            while j < 17 { img[off + 32 + j] = t[j]; j += 1; }
            k += 1;
        }
        let coord = |off: usize| {
            let mut b = [0u8; CAUSAL_TICK_RECEIPT_REF_LEN];
            b.copy_from_slice(&img[off..off + CAUSAL_TICK_RECEIPT_REF_LEN]);
            CausalTickReceiptRef::from_canonical_bytes(b)
        };
        let (p0, p1) = (coord(192), coord(368));
        match WalReceiptCorrelationRecord::from_payload_bytes(&img) {
            Ok(r) => {
                assert!(p0 < p1, "receipt-correlation record with unsorted or duplicate parents accepted");
                core::mem::forget(r);
            }
            Err(e) => {
                core::mem::forget(e);
                assert!(!(p0 < p1), "canonical receipt-correlation record (parents strictly ascending) rejected");
            }
        }
        reach!();
    }
}
