//! C12-L2 / C13 for the materialization frame v1 codec (`warp_core::materialization::frame`).
//! The statement asks of this codec: decode(encode(f)) == f and a deterministic writer (its
//! decoder deliberately tolerates reserved bytes, so accepted => canonical is not claimed).
use crate::kani;
use warp_core::materialization::{decode_frames, encode_frames, MaterializationFrame};
use warp_core::TypeId;

//@ also=C13 tier=quick timeout=900 mem=8 bits=280 unwind=5 unwindset="memcmp=48" fns=warp_core::materialization::frame::MaterializationFrame::encode,MaterializationFrame::decode
//@ bounds="one frame: channel id fully symbolic (32 bytes), data of every length 0..=2 (concrete loop) with symbolic bytes"
//@ desc="frame v1: decode(encode(f)) == f, the encoding is 44 + len bytes with the declared payload length 32 + len, and encoding twice gives identical bytes"
proof! {
    fn c12_frame_v1_roundtrip() {
        let mut n = 0;
        while n <= 2 {
            let id: [u8; 32] = kani::any();
            let d: [u8; 2] = kani::any();
            let f = MaterializationFrame::new(TypeId(id), d[..n].to_vec());
            let e1 = f.encode();
            let e2 = f.encode();
            assert!(e1.len() == 44 + n && e1 == e2);
            assert!(u32::from_le_bytes([e1[8], e1[9], e1[10], e1[11]]) as usize == 32 + n);
            match MaterializationFrame::decode(&e1) {
                Some(g) => assert!(g == f, "frame v1 decode(encode(f)) != f"),
                None => assert!(false, "encoded frame does not decode"),
            }
            core::mem::forget((f, e1, e2));
            n += 1;
        }
        reach!();
    }
}

//@ also=C12 tier=quick timeout=900 mem=8 bits=400 unwind=9 unwindset="memcmp=8" fns=warp_core::materialization::frame::MaterializationFrame::decode,warp_core::materialization::frame::decode_frames
//@ bounds="arbitrary byte strings of the lengths 0, 11, 12, 43, 44, 45 and 50 (around the header and minimum-payload boundaries), every byte symbolic"
//@ desc="C13 frame v1: decode never panics or indexes out of range; a frame is accepted only with the right magic, version and a declared payload length between 32 and the bytes present"
proof! {
    fn c13_frame_v1_decode_total() {
        const LENS: [usize; 7] = [0, 11, 12, 43, 44, 45, 50];
        let buf: [u8; 50] = kani::any();
        let mut k = 0;
        while k < 7 {
            let len = LENS[k];
            match MaterializationFrame::decode(&buf[..len]) {
                Some(f) => {
                    assert!(len >= 44 && buf[0] == 0x4D && buf[1] == 0x42 && buf[2] == 0x55 && buf[3] == 0x53 && buf[4] == 1 && buf[5] == 0);
                    let declared = u32::from_le_bytes([buf[8], buf[9], buf[10], buf[11]]) as usize;
                    assert!(declared >= 32 && 12 + declared <= len && f.data.len() == declared - 32);
                    core::mem::forget(f);
                }
                None => {}
            }
            k += 1;
        }
        reach!();
    }
}
