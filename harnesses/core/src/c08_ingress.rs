//! C08-D1/D2: the ingress id is a function of (kind, bytes, causal-parent *set*) only, and is
//! injective in each of them inside its domain. BLAKE3 is the transcript model (R2).
use crate::kani;
use warp_core::{
    CausalTickReceiptRef, IngressCausalParent, IngressEnvelope, IngressTarget, IntentKind, WorldlineId,
    CAUSAL_TICK_RECEIPT_REF_LEN,
};

fn eq32(a: &[u8; 32], b: &[u8; 32]) -> bool {
    let mut i = 0;
    let mut same = true;
    while i < 32 {
        if a[i] != b[i] { same = false; }
        i += 1;
    }
    same
}

/// A cited parent: role tag symbolic, coordinate symbolic in its two counters and in one byte of
/// each of its five 32-byte fields (the remaining bytes are a fixed pattern).
fn parent() -> IngressCausalParent {
    let mut raw = [0x5au8; CAUSAL_TICK_RECEIPT_REF_LEN];
    let t: [u8; 16] = kani::any();
    let mut i = 0;
    while i < 16 { raw[32 + i] = t[i]; i += 1; }
    raw[31] = kani::any();
    raw[48 + 31] = kani::any();
    raw[48 + 63] = kani::any();
    raw[48 + 95] = kani::any();
    raw[48 + 127] = kani::any();
    let r = CausalTickReceiptRef::from_canonical_bytes(raw);
    if kani::any() { IngressCausalParent::TickReceipt { receipt_ref: r } } else { IngressCausalParent::ContractInverseTarget { receipt_ref: r } }
}

fn target() -> IngressTarget {
    let w: [u8; 32] = kani::any();
    IngressTarget::DefaultWriter { worldline_id: WorldlineId::from_bytes(w) }
}

fn bytes2() -> Vec<u8> {
    let b: [u8; 2] = kani::any();
    let n: usize = kani::any();
    kani::assume(n <= 2);
    b[..n].to_vec()
}

//@ tier=quick timeout=1200 mem=10 bits=700 unwind=4 unwindset="hashmodel=520;eq32=33;memcmp=34;c08_ingress::parent=17;insertion_sort=4;insert_tail=4;dedup=4" fns=warp_core::head_inbox::IngressEnvelope::local_intent_with_causal_parents,warp_core::head_inbox::compute_ingress_id,warp_core::causal_receipt::CausalTickReceiptRef::to_canonical_bytes
//@ bounds="2 distinct-or-equal symbolic parents; two citation scripts of 3 entries each over them (every order, every duplication) citing the same set; kind 32 symbolic bytes; intent bytes of symbolic length 0..2; routing target symbolic and different between the two envelopes"
//@ desc="envelopes citing the same parent set in any order, any number of times, to any target have the same ingress id and the same canonical parent list"
proof_h! {
    fn c08_ingress_id_ignores_parent_order_dups_and_target() {
        let p = [parent(), parent()];
        let kind: [u8; 32] = kani::any();
        let body = bytes2();
        let (s1, s2): ([bool; 3], [bool; 3]) = (kani::any(), kani::any());
        let set = |s: &[bool; 3]| ((!s[0] || !s[1] || !s[2]) as u8) | (((s[0] || s[1] || s[2]) as u8) << 1);
        kani::assume(set(&s1) == set(&s2));
        let cite = |s: &[bool; 3]| vec![p[s[0] as usize], p[s[1] as usize], p[s[2] as usize]];
        let e1 = IngressEnvelope::local_intent_with_causal_parents(target(), IntentKind::from_hash(kind), body.clone(), cite(&s1));
        let e2 = IngressEnvelope::local_intent_with_causal_parents(target(), IntentKind::from_hash(kind), body.clone(), cite(&s2));
        assert!(eq32(&e1.ingress_id(), &e2.ingress_id()), "ingress id depends on citation order, duplication or target");
        let (c1, c2) = (e1.causal_parents(), e2.causal_parents());
        assert!(c1.len() == c2.len() && c1.len() >= 1 && c1.len() <= 2);
        assert!(c1[0] == c2[0] && (c1.len() < 2 || (c1[1] == c2[1] && c1[0] < c1[1])), "canonical parent list differs or is not a strictly ascending set");
        core::mem::forget((e1, e2, body));
        reach!();
    }
}

//@ tier=quick timeout=900 mem=8 bits=560 unwind=5 unwindset="hashmodel=520;eq32=33;memcmp=34" fns=warp_core::head_inbox::IngressEnvelope::local_intent,warp_core::head_inbox::compute_ingress_id
//@ bounds="parentless domain: two envelopes, kind 32 symbolic bytes each, intent bytes of symbolic length 0..2 each"
//@ desc="parentless ingress id: equal ids <=> equal kind and equal bytes (length included)"
proof_h! {
    fn c08_ingress_id_injective_parentless() {
        let (k1, k2): ([u8; 32], [u8; 32]) = (kani::any(), kani::any());
        let (b1, b2) = (bytes2(), bytes2());
        let e1 = IngressEnvelope::local_intent(target(), IntentKind::from_hash(k1), b1.clone());
        let e2 = IngressEnvelope::local_intent(target(), IntentKind::from_hash(k2), b2.clone());
        let mut same = eq32(&k1, &k2) && b1.len() == b2.len();
        if b1.len() == b2.len() {
            if b1.len() >= 1 && b1[0] != b2[0] { same = false; }
            if b1.len() >= 2 && b1[1] != b2[1] { same = false; }
        }
        assert!(eq32(&e1.ingress_id(), &e2.ingress_id()) == same, "parentless ingress id is not exactly a function of (kind, bytes)");
        core::mem::forget((e1, e2, b1, b2));
        reach!();
    }
}

//@ tier=quick timeout=1200 mem=10 bits=640 unwind=5 unwindset="hashmodel=520;eq32=33;memcmp=34;c08_ingress::parent=17;insertion_sort=4;insert_tail=4;dedup=4" fns=warp_core::head_inbox::IngressEnvelope::local_intent_with_causal_parents,warp_core::head_inbox::compute_ingress_id
//@ bounds="causal domain: two envelopes with one parent each (role and coordinate symbolic), kind 32 symbolic bytes each, intent bytes of symbolic length 0..2 each"
//@ desc="causal ingress id: equal ids <=> equal kind, bytes, parent role and parent coordinate"
proof_h! {
    fn c08_ingress_id_injective_causal() {
        let (k1, k2): ([u8; 32], [u8; 32]) = (kani::any(), kani::any());
        let (b1, b2) = (bytes2(), bytes2());
        let (p1, p2) = (parent(), parent());
        let e1 = IngressEnvelope::local_intent_with_causal_parents(target(), IntentKind::from_hash(k1), b1.clone(), vec![p1]);
        let e2 = IngressEnvelope::local_intent_with_causal_parents(target(), IntentKind::from_hash(k2), b2.clone(), vec![p2]);
        let mut same = eq32(&k1, &k2) && b1.len() == b2.len() && p1 == p2;
        if b1.len() == b2.len() {
            if b1.len() >= 1 && b1[0] != b2[0] { same = false; }
            if b1.len() >= 2 && b1[1] != b2[1] { same = false; }
        }
        assert!(eq32(&e1.ingress_id(), &e2.ingress_id()) == same, "causal ingress id is not exactly a function of (kind, bytes, parents)");
        core::mem::forget((e1, e2, b1, b2));
        reach!();
    }
}
