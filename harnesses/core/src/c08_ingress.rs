//! C08-D1/D2: the ingress id is a function of (kind, bytes, causal-parent *set*) only, and is
//! injective in each of them inside its domain. BLAKE3 is the transcript model (R2).
use crate::kani;
use warp_core::{
    CausalTickReceiptRef, IngressCausalParent, IngressEnvelope, IngressTarget, IntentKind, WorldlineId,
    CAUSAL_TICK_RECEIPT_REF_LEN,
};

fn eq32(a: &[u8; 32], b: &[u8; 32]) -> bool {
    let mut i = 0;
    let mut same = true;
    while i < 32 {
        if a[i] != b[i] { same = false; }
        i += 1;
    }
    same
}

/// A cited parent: role tag symbolic, coordinate symbolic in its two counters and in one byte of
/// each of its five 32-byte fields (the remaining bytes are a fixed pattern).
fn parent() -> IngressCausalParent {
    let mut raw = [0x5au8; CAUSAL_TICK_RECEIPT_REF_LEN];
    let t: [u8; 16] = kani::any();
    let mut i = 0;
    while i < 16 { raw[32 + i] = t[i]; i += 1; }
    raw[31] = kani::any();
    raw[48 + 31] = kani::any();
    raw[48 + 63] = kani::any();
    raw[48 + 95] = kani::any();
    raw[48 + 127] = kani::any();
    let r = CausalTickReceiptRef::from_canonical_bytes(raw);
    if kani::any() { IngressCausalParent::TickReceipt { receipt_ref: r } } else { IngressCausalParent::ContractInverseTarget { receipt_ref: r } }
}

fn target() -> IngressTarget {
    let w: [u8; 32] = kani::any();
    IngressTarget::DefaultWriter { worldline_id: WorldlineId::from_bytes(w) }
}

fn bytes2() -> Vec<u8> {
    let b: [u8; 2] = kani::any();
    let n: usize = kani::any();
    kani::assume(n <= 2);
    b[..n].to_vec()
}

/// A cited parent whose role and whose two tick counters are symbolic (everything else fixed).
fn parent_light() -> IngressCausalParent {
    let mut raw = [0x5au8; CAUSAL_TICK_RECEIPT_REF_LEN];
    let t: [u8; 2] = kani::any();
    raw[32] = t[0];
    raw[40] = t[1];
    let r = CausalTickReceiptRef::from_canonical_bytes(raw);
    if kani::any() { IngressCausalParent::TickReceipt { receipt_ref: r } } else { IngressCausalParent::ContractInverseTarget { receipt_ref: r } }
}

//@ tier=off timeout=2400 mem=30 bits=40 unwind=4 unwindset="hashmodel=520;eq32=33;memcmp=34" fns=warp_core::head_inbox::IngressEnvelope::local_intent_with_causal_parents,warp_core::head_inbox::compute_ingress_id,warp_core::causal_receipt::CausalTickReceiptRef::to_canonical_bytes
//@ bounds="2 parents with symbolic role and symbolic tick counters (equal or different); citation lists [p0,p1] and [p1,p0]; one symbolic kind byte, one symbolic intent byte; two different routing targets"
//@ desc="envelopes citing the same two parents in either order, to different targets, have the same ingress id and the same canonical parent list (strictly ascending, duplicates collapsed)"
proof_h! {
    fn c08_ingress_id_ignores_parent_order_and_target() {
        let p = [parent_light(), parent_light()];
        let mut kind = [0x33u8; 32];
        kind[7] = kani::any();
        let body = vec![kani::any::<u8>()];
        let t1 = IngressTarget::DefaultWriter { worldline_id: WorldlineId::from_bytes([1; 32]) };
        let t2 = IngressTarget::DefaultWriter { worldline_id: WorldlineId::from_bytes([2; 32]) };
        let e1 = IngressEnvelope::local_intent_with_causal_parents(t1, IntentKind::from_hash(kind), body.clone(), vec![p[0], p[1]]);
        let e2 = IngressEnvelope::local_intent_with_causal_parents(t2, IntentKind::from_hash(kind), body.clone(), vec![p[1], p[0]]);
        assert!(eq32(&e1.ingress_id(), &e2.ingress_id()), "ingress id depends on citation order or target");
        let c1 = e1.causal_parents();
        assert!(c1.len() == if p[0] == p[1] { 1 } else { 2 }, "parent list is not a set");
        assert!(c1.len() < 2 || c1[0] < c1[1], "parent list is not strictly ascending");
        assert!(e2.causal_parents() == c1, "canonical parent list differs between citation orders");
        core::mem::forget((e1, e2, body));
        reach!();
    }
}

//@ tier=quick timeout=900 mem=8 bits=560 unwind=5 unwindset="hashmodel=520;eq32=33;memcmp=34" fns=warp_core::head_inbox::IngressEnvelope::local_intent,warp_core::head_inbox::compute_ingress_id
//@ bounds="parentless domain: two envelopes, kind 32 symbolic bytes each, intent bytes of symbolic length 0..2 each"
//@ desc="parentless ingress id: equal ids <=> equal kind and equal bytes (length included)"
proof_h! {
    fn c08_ingress_id_injective_parentless() {
        let (k1, k2): ([u8; 32], [u8; 32]) = (kani::any(), kani::any());
        let (b1, b2) = (bytes2(), bytes2());
        let e1 = IngressEnvelope::local_intent(target(), IntentKind::from_hash(k1), b1.clone());
        let e2 = IngressEnvelope::local_intent(target(), IntentKind::from_hash(k2), b2.clone());
        let mut same = eq32(&k1, &k2) && b1.len() == b2.len();
        if b1.len() == b2.len() {
            if b1.len() >= 1 && b1[0] != b2[0] { same = false; }
            if b1.len() >= 2 && b1[1] != b2[1] { same = false; }
        }
        assert!(eq32(&e1.ingress_id(), &e2.ingress_id()) == same, "parentless ingress id is not exactly a function of (kind, bytes)");
        core::mem::forget((e1, e2, b1, b2));
        reach!();
    }
}

//@ tier=quick timeout=1800 mem=14 bits=90 unwind=5 unwindset="hashmodel=520;eq32=33;memcmp=34;insertion_sort=4;insert_tail=4;dedup=4" fns=warp_core::head_inbox::IngressEnvelope::local_intent_with_causal_parents,warp_core::head_inbox::compute_ingress_id
//@ bounds="causal domain: two envelopes with one parent each (role and tick counters symbolic), kind symbolic in one byte, one symbolic intent byte each"
//@ desc="causal ingress id: equal ids <=> equal kind, bytes, parent role and parent coordinate"
proof_h! {
    fn c08_ingress_id_injective_causal() {
        let (mut k1, mut k2) = ([0x33u8; 32], [0x33u8; 32]);
        k1[7] = kani::any();
        k2[7] = kani::any();
        let (b1, b2): (u8, u8) = (kani::any(), kani::any());
        let (p1, p2) = (parent_light(), parent_light());
        let e1 = IngressEnvelope::local_intent_with_causal_parents(target(), IntentKind::from_hash(k1), vec![b1], vec![p1]);
        let e2 = IngressEnvelope::local_intent_with_causal_parents(target(), IntentKind::from_hash(k2), vec![b2], vec![p2]);
        let same = k1[7] == k2[7] && b1 == b2 && p1 == p2;
        assert!(eq32(&e1.ingress_id(), &e2.ingress_id()) == same, "causal ingress id is not exactly a function of (kind, bytes, parents)");
        core::mem::forget((e1, e2));
        reach!();
    }
}

//@ tier=off timeout=1800 mem=16 bits=2 unwind=6 unwindset="hashmodel=520;eq32=33;memcmp=34" fns=warp_core::head_inbox::IngressEnvelope::local_intent_with_causal_parents
//@ bounds="two citations of ONE fixed receipt coordinate whose roles (tick-receipt / contract-inverse-target) are symbolic; kind, bytes and target fixed"
//@ desc="the constructor canonicalises the cited parents as a set ordered by (role, coordinate): the stored list is strictly ascending and a repeated (role, coordinate) is collapsed, whatever order the caller listed the roles in"
proof_h! {
    fn c08_parent_roles_canonicalised() {
        let r = CausalTickReceiptRef::from_canonical_bytes([0x5a; CAUSAL_TICK_RECEIPT_REF_LEN]);
        let mk = |tick: bool| if tick { IngressCausalParent::TickReceipt { receipt_ref: r } } else { IngressCausalParent::ContractInverseTarget { receipt_ref: r } };
        let (r0, r1): (bool, bool) = (kani::any(), kani::any());
        let t = IngressTarget::DefaultWriter { worldline_id: WorldlineId::from_bytes([1; 32]) };
        let e = IngressEnvelope::local_intent_with_causal_parents(t, IntentKind::from_hash([0x33; 32]), vec![7u8], vec![mk(r0), mk(r1)]);
        let c = e.causal_parents();
        assert!(c.len() == if r0 == r1 { 1 } else { 2 }, "repeated (role, coordinate) not collapsed");
        assert!(c.len() < 2 || c[0] < c[1], "stored parent list is not strictly ascending by (role, coordinate)");
        core::mem::forget(e);
        reach!();
    }
}
