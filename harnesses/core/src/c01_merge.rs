//! C01-D2 / C02-D1 (kernel): the canonical op key and the canonical merge of per-worker deltas.
//! The merged op list - what is applied and hashed - is a function of the *multiset* of emitted
//! ops, never of which worker produced them or in which order they were emitted.
use crate::kani;
use core::cmp::Ordering;
use warp_core::verif_hooks::merge_worker_ops;
use warp_core::{
    AttachmentKey, AttachmentValue, EdgeId, EdgeKey, EdgeRecord, NodeId, NodeKey, NodeRecord, PortalInit, TypeId, WarpId,
    WarpInstance, WarpOp,
};

fn id32() -> [u8; 32] { kani::any() }

/// One operation of the requested kind, every identifier fully symbolic; returns the op together
/// with (instance, location id 1, location id 2) - the location the operation addresses.
fn any_op(kind: u8) -> (WarpOp, [u8; 32], [u8; 32], [u8; 32]) {
    let w = id32();
    let (x, y) = (id32(), id32());
    let warp = WarpId(w);
    let node = NodeKey { warp_id: warp, local_id: NodeId(x) };
    let z = [0u8; 32];
    match kind {
        0 => (WarpOp::OpenPortal { key: AttachmentKey::node_alpha(node), child_warp: WarpId(id32()), child_root: NodeId(id32()), init: PortalInit::RequireExisting }, w, x, [1; 32]),
        1 => (WarpOp::UpsertWarpInstance { instance: WarpInstance { warp_id: warp, parent: None, root_node: NodeId(id32()) } }, w, z, z),
        2 => (WarpOp::DeleteWarpInstance { warp_id: warp }, w, z, z),
        3 => (WarpOp::DeleteEdge { warp_id: warp, from: NodeId(x), edge_id: EdgeId(y) }, w, x, y),
        4 => (WarpOp::DeleteNode { node }, w, x, z),
        5 => (WarpOp::UpsertNode { node, record: NodeRecord { ty: TypeId(id32()) } }, w, x, z),
        6 => (WarpOp::UpsertEdge { warp_id: warp, record: EdgeRecord { id: EdgeId(y), from: NodeId(x), to: NodeId(id32()), ty: TypeId(id32()) } }, w, x, y),
        7 => (WarpOp::SetAttachment { key: AttachmentKey::node_alpha(node), value: None }, w, x, [1; 32]),
        _ => (WarpOp::SetAttachment { key: AttachmentKey::edge_beta(EdgeKey { warp_id: warp, local_id: EdgeId(y) }), value: Some(AttachmentValue::Descend(WarpId(id32()))) }, w, y, [2; 32]),
    }
}

fn eq32(a: &[u8; 32], b: &[u8; 32]) -> bool {
    let mut i = 0;
    let mut same = true;
    while i < 32 { if a[i] != b[i] { same = false; } i += 1; }
    same
}

/// Replay phase of an op kind as documented on `WarpOp::sort_key`: portals and instances first,
/// deletions before upserts, attachment writes last.
const PHASE: [u8; 9] = [1, 2, 3, 4, 5, 6, 7, 8, 8];

//@ tier=quick timeout=1500 mem=10 bits=2048 unwind=4 unwindset="memcmp=34;eq32=33;c01_merge::c01_sort_key=10" fns=warp_core::tick_patch::WarpOp::sort_key
//@ bounds="every ordered pair of operation kinds (9 x 9 shapes, concrete loops), every identifier fully symbolic"
//@ desc="canonical op key: two ops get equal keys exactly when they are the same kind of edit of the same location (so dedupe never merges different locations and never misses a duplicate), ops of different replay phases order by phase whatever their ids (instances < deletions < upserts < attachments), and the order is antisymmetric"
proof! {
    fn c01_sort_key_identifies_location_and_phase() {
        let mut ka = 0u8;
        while ka < 9 {
            let (a, wa, xa, ya) = any_op(ka);
            let key_a = a.sort_key();
            let mut kb = 0u8;
            while kb < 9 {
                let (b, wb, xb, yb) = any_op(kb);
                let key_b = b.sort_key();
                let c = key_a.cmp(&key_b);
                assert!(key_b.cmp(&key_a) == c.reverse());
                if PHASE[ka as usize] != PHASE[kb as usize] {
                    assert!((c == Ordering::Less) == (PHASE[ka as usize] < PHASE[kb as usize]), "ops of different replay phases are not ordered by phase");
                } else {
                    // same phase: equal key <=> same location. (Node- and edge-owned attachment
                    // slots share phase 8 and are distinguished by their owner/plane tag.)
                    let same_loc = ka == kb && eq32(&wa, &wb) && eq32(&xa, &xb) && eq32(&ya, &yb);
                    assert!((c == Ordering::Equal) == same_loc, "op key equality is not location identity");
                }
                core::mem::forget(b);
                kb += 1;
            }
            core::mem::forget(a);
            ka += 1;
        }
        reach!();
    }
}

fn node_op(idb: u8, tyb: u8) -> WarpOp {
    let mut id = [0x31u8; 32];
    id[31] = idb;
    WarpOp::UpsertNode { node: NodeKey { warp_id: WarpId([0xA0; 32]), local_id: NodeId(id) }, record: NodeRecord { ty: TypeId([tyb; 32]) } }
}

fn same_result(x: &Result<Vec<WarpOp>, &'static str>, y: &Result<Vec<WarpOp>, &'static str>) -> bool {
    match (x, y) {
        (Ok(a), Ok(b)) => a.len() == b.len() && (a.len() < 1 || a[0] == b[0]) && (a.len() < 2 || a[1] == b[1]),
        (Err(_), Err(_)) => true,
        _ => false,
    }
}

//@ also=C02 tier=off timeout=2400 mem=14 bits=32 unwind=6 unwindset="memcmp=34" fns=warp_core::engine_impl::merge_parallel_deltas,warp_core::parallel::merge::merge_deltas,warp_core::tick_patch::WarpOp::sort_key
//@ bounds="2 node upserts whose ids and type ids are symbolic in one byte each (so: different nodes, same node same value, same node different value); every distribution over workers: one worker in both emission orders, two workers in both worker orders"
//@ desc="merge of per-worker deltas: the result (op list, or the conflict error) is identical for every assignment of the two ops to workers and every emission order; when Ok it is strictly ascending by op key with identical duplicates collapsed; divergent writes to one node are an error in every distribution"
proof! {
    fn c01_merge_two_ops_every_distribution() {
        let (ia, ta, ib, tb): (u8, u8, u8, u8) = (kani::any(), kani::any(), kani::any(), kani::any());
        let a = || node_op(ia, ta);
        let b = || node_op(ib, tb);
        let r0 = merge_worker_ops(vec![vec![a(), b()]]);
        let r1 = merge_worker_ops(vec![vec![b(), a()]]);
        let r2 = merge_worker_ops(vec![vec![a()], vec![b()]]);
        let r3 = merge_worker_ops(vec![vec![b()], vec![a()]]);
        assert!(same_result(&r0, &r1) && same_result(&r0, &r2) && same_result(&r0, &r3), "merge result depends on worker assignment or emission order");
        match &r0 {
            Ok(ops) => {
                if ia == ib { assert!(ta == tb && ops.len() == 1, "divergent writes to one node merged silently, or identical duplicate not collapsed"); }
                else { assert!(ops.len() == 2 && ops[0].sort_key() < ops[1].sort_key(), "merged ops not in canonical order"); }
            }
            Err(_) => assert!(ia == ib && ta != tb, "merge rejected non-conflicting ops"),
        }
        core::mem::forget((r0, r1, r2, r3));
        reach!();
    }
}
