//! C03-D2/D3/D4: the conflict predicate of both schedulers, of receipts and of
//! `Footprint::independent` equals the statement's own table, rejected candidates reserve
//! nothing, and blockers are exactly the accepted conflicting priors.
//! Runs over the R6 container model (sorted-Vec sets); membership is symbolic.
use crate::kani;
use warp_core::verif_hooks::{legacy_reserve, radix_reserve, receipt_conflict};
use warp_core::{AttachmentKey, EdgeId, EdgeKey, Footprint, NodeId, NodeKey, WarpId};

const W: [WarpId; 2] = [WarpId([0xA0; 32]), WarpId([0xA1; 32])];
const N: NodeId = NodeId([0x11; 32]);
const E: EdgeId = EdgeId([0x22; 32]);
const PORT: u64 = 0x0000_0007_0000_0005;

/// Membership bits of one footprint over the universe {node N, edge E, attachment of N,
/// attachment of E, port} x {instance 0, instance 1}. `r`/`w` index = instance.
#[derive(Clone, Copy)]
pub struct Bits {
    pub n_r: [bool; 2], pub n_w: [bool; 2],
    pub e_r: [bool; 2], pub e_w: [bool; 2],
    pub an_r: [bool; 2], pub an_w: [bool; 2],
    pub ae_r: [bool; 2], pub ae_w: [bool; 2],
    pub b_in: [bool; 2], pub b_out: [bool; 2],
}

pub const NONE: Bits = Bits {
    n_r: [false; 2], n_w: [false; 2], e_r: [false; 2], e_w: [false; 2],
    an_r: [false; 2], an_w: [false; 2], ae_r: [false; 2], ae_w: [false; 2],
    b_in: [false; 2], b_out: [false; 2],
};

/// Planes a harness populates (the others stay genuinely empty and cost nothing).
pub const P_NODE: u8 = 1;
pub const P_EDGE: u8 = 2;
pub const P_ATT_NODE: u8 = 4;
pub const P_ATT_EDGE: u8 = 8;
pub const P_PORT: u8 = 16;

/// R1: container *shape* is concrete, *content* is symbolic. Every populated set receives one
/// key per instance in `0..instances`; the key is the shared resource when the membership bit is
/// set and otherwise a dummy that is private to (footprint `who`, set) and therefore can never
/// collide. Keys order by instance first, so positions inside the sorted containers of one
/// footprint do not depend on the bits. "Absent" is thus modelled as "present but private";
/// `c03_empty_footprints` covers genuinely empty sets.
pub fn build(who: u8, b: &Bits, planes: u8, instances: usize) -> Footprint {
    let mut f = Footprint::default();
    f.factor_mask = u64::MAX; // sound (maximally conservative) partition mask
    let dn = |set: u8| { let mut d = N.0; d[31] = 0x80 | (who << 4) | set; NodeId(d) };
    let de = |set: u8| { let mut d = E.0; d[31] = 0x80 | (who << 4) | set; EdgeId(d) };
    let mut i = 0;
    while i < instances {
        let nk = |real: bool, set: u8| NodeKey { warp_id: W[i], local_id: if real { N } else { dn(set) } };
        let ek = |real: bool, set: u8| EdgeKey { warp_id: W[i], local_id: if real { E } else { de(set) } };
        if planes & P_NODE != 0 {
            f.n_read.insert(nk(b.n_r[i], 0));
            f.n_write.insert(nk(b.n_w[i], 1));
        }
        if planes & P_EDGE != 0 {
            f.e_read.insert(ek(b.e_r[i], 2));
            f.e_write.insert(ek(b.e_w[i], 3));
        }
        if planes & P_ATT_NODE != 0 {
            f.a_read.insert(AttachmentKey::node_alpha(nk(b.an_r[i], 4)));
            f.a_write.insert(AttachmentKey::node_alpha(nk(b.an_w[i], 5)));
        }
        if planes & P_ATT_EDGE != 0 {
            f.a_read.insert(AttachmentKey::edge_beta(ek(b.ae_r[i], 6)));
            f.a_write.insert(AttachmentKey::edge_beta(ek(b.ae_w[i], 7)));
        }
        if planes & P_PORT != 0 {
            f.b_in.insert(W[i], if b.b_in[i] { PORT } else { PORT ^ (0x100 | ((who as u64) << 4) | 8) });
            f.b_out.insert(W[i], if b.b_out[i] { PORT } else { PORT ^ (0x100 | ((who as u64) << 4) | 9) });
        }
        i += 1;
    }
    f
}

/// The statement's wording: a write overlapping the other's read or write of the same node,
/// edge or attachment, or any shared boundary port - always within one instance.
pub fn table(a: &Bits, b: &Bits) -> bool {
    let mut c = false;
    let mut i = 0;
    while i < 2 {
        c |= (a.n_w[i] && (b.n_r[i] || b.n_w[i])) || (b.n_w[i] && (a.n_r[i] || a.n_w[i]));
        c |= (a.e_w[i] && (b.e_r[i] || b.e_w[i])) || (b.e_w[i] && (a.e_r[i] || a.e_w[i]));
        c |= (a.an_w[i] && (b.an_r[i] || b.an_w[i])) || (b.an_w[i] && (a.an_r[i] || a.an_w[i]));
        c |= (a.ae_w[i] && (b.ae_r[i] || b.ae_w[i])) || (b.ae_w[i] && (a.ae_r[i] || a.ae_w[i]));
        c |= (a.b_in[i] || a.b_out[i]) && (b.b_in[i] || b.b_out[i]);
        i += 1;
    }
    c
}

fn any2() -> [bool; 2] { [kani::any(), kani::any()] }

#[inline(always)]
fn pair_agrees(a: Bits, b: Bits, planes: u8, instances: usize) {
    let (fa, fb) = (build(0, &a, planes, instances), build(1, &b, planes, instances));
    let want = table(&a, &b);
    let fps = [fa, fb];
    let r = radix_reserve(&fps);
    assert!(r[0], "radix: first candidate must be accepted");
    assert!(r[1] == !want, "radix scheduler decision differs from the conflict table");
    let l = legacy_reserve(&fps);
    assert!(l[0] && l[1] == !want, "legacy scheduler decision differs from the conflict table");
    assert!(receipt_conflict(&fps[1], &fps[0]) == want, "receipt predicate differs from the conflict table");
    assert!(receipt_conflict(&fps[0], &fps[1]) == want, "receipt predicate is not symmetric");
    assert!(fps[1].independent(&fps[0]) == !want, "Footprint::independent differs from the conflict table");
    core::mem::forget(fps);
}

//@ tier=off timeout=900 bits=4 unwind=6 unwindset="memcmp=34" fns=warp_core::scheduler::RadixScheduler::reserve,RadixScheduler::has_conflict,RadixScheduler::mark_all,LegacyScheduler::reserve,warp_core::footprint::Footprint::independent,warp_core::engine_impl::footprints_conflict,warp_core::footprint::intersects_btree
//@ bounds="two candidates, one instance; read and write membership of the shared node plane key symbolic (4 bits); sorted slot-array container model (R6)"
//@ desc="node plane: radix == legacy == receipt predicate == independent == table (a write against the other's read or write)"
proof! {
    fn c03_pair_nodes() {
        let a = Bits { n_r: [kani::any(), false], n_w: [kani::any(), false], ..NONE };
        let b = Bits { n_r: [kani::any(), false], n_w: [kani::any(), false], ..NONE };
        pair_agrees(a, b, P_NODE, 1);
        reach!();
    }
}

//@ tier=off timeout=900 bits=4 unwind=6 unwindset="memcmp=34" fns=warp_core::scheduler::RadixScheduler::reserve,RadixScheduler::has_conflict,RadixScheduler::mark_all,LegacyScheduler::reserve,warp_core::footprint::Footprint::independent,warp_core::engine_impl::footprints_conflict,warp_core::footprint::intersects_btree
//@ bounds="two candidates, two instances: candidate A holds the key in instance 0 only, candidate B in instance 1 only (membership symbolic, 4 bits)"
//@ desc="node plane: the same local id in different instances never conflicts"
proof! {
    fn c03_cross_instance_nodes() {
        let a = Bits { n_r: [kani::any(), false], n_w: [kani::any(), false], ..NONE };
        let b = Bits { n_r: [false, kani::any()], n_w: [false, kani::any()], ..NONE };
        assert!(!table(&a, &b));
        pair_agrees(a, b, P_NODE, 2);
        reach!();
    }
}

//@ tier=off timeout=900 bits=4 unwind=6 unwindset="memcmp=34" fns=warp_core::scheduler::RadixScheduler::reserve,RadixScheduler::has_conflict,RadixScheduler::mark_all,LegacyScheduler::reserve,warp_core::footprint::Footprint::independent,warp_core::engine_impl::footprints_conflict,warp_core::footprint::intersects_btree
//@ bounds="two candidates, one instance; read and write membership of the shared edge plane key symbolic (4 bits); sorted slot-array container model (R6)"
//@ desc="edge plane: radix == legacy == receipt predicate == independent == table (a write against the other's read or write)"
proof! {
    fn c03_pair_edges() {
        let a = Bits { e_r: [kani::any(), false], e_w: [kani::any(), false], ..NONE };
        let b = Bits { e_r: [kani::any(), false], e_w: [kani::any(), false], ..NONE };
        pair_agrees(a, b, P_EDGE, 1);
        reach!();
    }
}

//@ tier=off timeout=900 bits=4 unwind=6 unwindset="memcmp=34" fns=warp_core::scheduler::RadixScheduler::reserve,RadixScheduler::has_conflict,RadixScheduler::mark_all,LegacyScheduler::reserve,warp_core::footprint::Footprint::independent,warp_core::engine_impl::footprints_conflict,warp_core::footprint::intersects_btree
//@ bounds="two candidates, two instances: candidate A holds the key in instance 0 only, candidate B in instance 1 only (membership symbolic, 4 bits)"
//@ desc="edge plane: the same local id in different instances never conflicts"
proof! {
    fn c03_cross_instance_edges() {
        let a = Bits { e_r: [kani::any(), false], e_w: [kani::any(), false], ..NONE };
        let b = Bits { e_r: [false, kani::any()], e_w: [false, kani::any()], ..NONE };
        assert!(!table(&a, &b));
        pair_agrees(a, b, P_EDGE, 2);
        reach!();
    }
}

//@ tier=off timeout=900 bits=4 unwind=6 unwindset="memcmp=34" fns=warp_core::scheduler::RadixScheduler::reserve,RadixScheduler::has_conflict,RadixScheduler::mark_all,LegacyScheduler::reserve,warp_core::footprint::Footprint::independent,warp_core::engine_impl::footprints_conflict,warp_core::footprint::intersects_btree
//@ bounds="two candidates, one instance; read and write membership of the shared node-owned attachment slots key symbolic (4 bits); sorted slot-array container model (R6)"
//@ desc="node-owned attachment slots: radix == legacy == receipt predicate == independent == table (a write against the other's read or write)"
proof! {
    fn c03_pair_att_node() {
        let a = Bits { an_r: [kani::any(), false], an_w: [kani::any(), false], ..NONE };
        let b = Bits { an_r: [kani::any(), false], an_w: [kani::any(), false], ..NONE };
        pair_agrees(a, b, P_ATT_NODE, 1);
        reach!();
    }
}

//@ tier=off timeout=900 bits=4 unwind=6 unwindset="memcmp=34" fns=warp_core::scheduler::RadixScheduler::reserve,RadixScheduler::has_conflict,RadixScheduler::mark_all,LegacyScheduler::reserve,warp_core::footprint::Footprint::independent,warp_core::engine_impl::footprints_conflict,warp_core::footprint::intersects_btree
//@ bounds="two candidates, two instances: candidate A holds the key in instance 0 only, candidate B in instance 1 only (membership symbolic, 4 bits)"
//@ desc="node-owned attachment slots: the same local id in different instances never conflicts"
proof! {
    fn c03_cross_instance_att_node() {
        let a = Bits { an_r: [kani::any(), false], an_w: [kani::any(), false], ..NONE };
        let b = Bits { an_r: [false, kani::any()], an_w: [false, kani::any()], ..NONE };
        assert!(!table(&a, &b));
        pair_agrees(a, b, P_ATT_NODE, 2);
        reach!();
    }
}

//@ tier=off timeout=900 bits=4 unwind=6 unwindset="memcmp=34" fns=warp_core::scheduler::RadixScheduler::reserve,RadixScheduler::has_conflict,RadixScheduler::mark_all,LegacyScheduler::reserve,warp_core::footprint::Footprint::independent,warp_core::engine_impl::footprints_conflict,warp_core::footprint::intersects_btree
//@ bounds="two candidates, one instance; read and write membership of the shared edge-owned attachment slots key symbolic (4 bits); sorted slot-array container model (R6)"
//@ desc="edge-owned attachment slots: radix == legacy == receipt predicate == independent == table (a write against the other's read or write)"
proof! {
    fn c03_pair_att_edge() {
        let a = Bits { ae_r: [kani::any(), false], ae_w: [kani::any(), false], ..NONE };
        let b = Bits { ae_r: [kani::any(), false], ae_w: [kani::any(), false], ..NONE };
        pair_agrees(a, b, P_ATT_EDGE, 1);
        reach!();
    }
}

//@ tier=off timeout=900 bits=4 unwind=6 unwindset="memcmp=34" fns=warp_core::scheduler::RadixScheduler::reserve,RadixScheduler::has_conflict,RadixScheduler::mark_all,LegacyScheduler::reserve,warp_core::footprint::Footprint::independent,warp_core::engine_impl::footprints_conflict,warp_core::footprint::intersects_btree
//@ bounds="two candidates, two instances: candidate A holds the key in instance 0 only, candidate B in instance 1 only (membership symbolic, 4 bits)"
//@ desc="edge-owned attachment slots: the same local id in different instances never conflicts"
proof! {
    fn c03_cross_instance_att_edge() {
        let a = Bits { ae_r: [kani::any(), false], ae_w: [kani::any(), false], ..NONE };
        let b = Bits { ae_r: [false, kani::any()], ae_w: [false, kani::any()], ..NONE };
        assert!(!table(&a, &b));
        pair_agrees(a, b, P_ATT_EDGE, 2);
        reach!();
    }
}

//@ tier=off timeout=900 bits=4 unwind=6 unwindset="memcmp=34" fns=warp_core::scheduler::RadixScheduler::reserve,RadixScheduler::has_conflict,RadixScheduler::mark_all,LegacyScheduler::reserve,warp_core::footprint::Footprint::independent,warp_core::engine_impl::footprints_conflict,warp_core::footprint::intersects_btree
//@ bounds="two candidates, one instance; in/out membership of the shared boundary port symbolic (4 bits)"
//@ desc="ports: any shared port (in/in, in/out, out/in, out/out) conflicts; all four predicates equal the table"
proof! {
    fn c03_pair_ports() {
        let a = Bits { b_in: [kani::any(), false], b_out: [kani::any(), false], ..NONE };
        let b = Bits { b_in: [kani::any(), false], b_out: [kani::any(), false], ..NONE };
        pair_agrees(a, b, P_PORT, 1);
        reach!();
    }
}

//@ tier=off timeout=900 bits=4 unwind=6 unwindset="memcmp=34" fns=warp_core::scheduler::RadixScheduler::reserve,RadixScheduler::has_conflict,RadixScheduler::mark_all,LegacyScheduler::reserve,warp_core::footprint::Footprint::independent,warp_core::engine_impl::footprints_conflict,warp_core::footprint::intersects_btree
//@ bounds="two candidates; the port held in different instances"
//@ desc="ports in different instances never conflict"
proof! {
    fn c03_cross_instance_ports() {
        let a = Bits { b_in: [kani::any(), false], b_out: [kani::any(), false], ..NONE };
        let b = Bits { b_in: [false, kani::any()], b_out: [false, kani::any()], ..NONE };
        assert!(!table(&a, &b));
        pair_agrees(a, b, P_PORT, 2);
        reach!();
    }
}

//@ tier=off timeout=3000 bits=20 unwind=6 unwindset="memcmp=34" fns=warp_core::scheduler::RadixScheduler::reserve,RadixScheduler::has_conflict,RadixScheduler::mark_all,LegacyScheduler::reserve,warp_core::footprint::Footprint::independent,warp_core::engine_impl::footprints_conflict,warp_core::footprint::intersects_btree
//@ bounds="two candidates; every resource class at once in one instance (10 bits per footprint)"
//@ desc="all planes together: classes never interfere (a node write does not conflict with an edge/attachment/port of the same owner)"
proof! {
    fn c03_pair_mixed_one_instance() {
        let one = |x: bool| [x, false];
        let mk = || Bits { n_r: one(kani::any()), n_w: one(kani::any()), e_r: one(kani::any()), e_w: one(kani::any()),
            an_r: one(kani::any()), an_w: one(kani::any()), ae_r: one(kani::any()), ae_w: one(kani::any()),
            b_in: one(kani::any()), b_out: one(kani::any()) };
        pair_agrees(mk(), mk(), P_NODE | P_EDGE | P_ATT_NODE | P_ATT_EDGE | P_PORT, 1);
        reach!();
    }
}

/// Greedy reference: accept iff no conflict with any previously *accepted* candidate;
/// blockers = exactly the accepted conflicting priors (what `reserve_for_receipt` records).
#[inline(always)]
fn triple_is_greedy(bits: [Bits; 3], planes: u8, instances: usize) {
    let fps = [build(0, &bits[0], planes, instances), build(1, &bits[1], planes, instances), build(2, &bits[2], planes, instances)];
    let c10 = table(&bits[1], &bits[0]);
    let c20 = table(&bits[2], &bits[0]);
    let c21 = table(&bits[2], &bits[1]);
    let acc1 = !c10;
    let acc2 = !(c20 || (acc1 && c21));
    let r = radix_reserve(&fps);
    assert!(r[0] && r[1] == acc1 && r[2] == acc2, "radix: not the canonical greedy independent set (a rejected candidate reserved something, or a conflict was missed)");
    let l = legacy_reserve(&fps);
    assert!(l[0] && l[1] == acc1 && l[2] == acc2, "legacy: not the canonical greedy independent set");
    // blockers of candidate 2 computed as reserve_for_receipt does: receipt predicate against accepted priors
    let b0 = receipt_conflict(&fps[2], &fps[0]);
    let b1 = acc1 && receipt_conflict(&fps[2], &fps[1]);
    assert!((b0 || b1) == !r[2], "rejected iff at least one accepted prior is a blocker");
    assert!(b0 == c20 && b1 == (acc1 && c21), "blocker set is not exactly the accepted conflicting priors");
    core::mem::forget(fps);
}

//@ tier=off timeout=1200 bits=6 unwind=6 unwindset="memcmp=34" fns=warp_core::scheduler::RadixScheduler::reserve,RadixScheduler::has_conflict,RadixScheduler::mark_all,LegacyScheduler::reserve,warp_core::engine_impl::footprints_conflict
//@ bounds="three candidates, one instance; node read/write membership symbolic (2 bits each)"
//@ desc="three candidates: accept vector == greedy reference (a rejected middle candidate never blocks the third); blockers == accepted conflicting priors; both schedulers"
proof! {
    fn c03_triple_nodes() {
        let mk = || Bits { n_r: [kani::any(), false], n_w: [kani::any(), false], ..NONE };
        triple_is_greedy([mk(), mk(), mk()], P_NODE, 1);
        reach!();
    }
}

//@ tier=off timeout=1200 bits=6 unwind=6 unwindset="memcmp=34" fns=warp_core::scheduler::RadixScheduler::reserve,LegacyScheduler::reserve,warp_core::engine_impl::footprints_conflict
//@ bounds="three candidates, one instance; edge read/write membership symbolic (2 bits each)"
//@ desc="three candidates over edges: greedy reference, rejection reserves nothing, exact blockers"
proof! {
    fn c03_triple_edges() {
        let mk = || Bits { e_r: [kani::any(), false], e_w: [kani::any(), false], ..NONE };
        triple_is_greedy([mk(), mk(), mk()], P_EDGE, 1);
        reach!();
    }
}

//@ tier=off timeout=1200 bits=6 unwind=6 unwindset="memcmp=34" fns=warp_core::scheduler::RadixScheduler::reserve,LegacyScheduler::reserve,warp_core::engine_impl::footprints_conflict
//@ bounds="three candidates, one instance; node-attachment read/write membership symbolic (2 bits each)"
//@ desc="three candidates over attachment slots: greedy reference, rejection reserves nothing, exact blockers"
proof! {
    fn c03_triple_attachments() {
        let mk = || Bits { an_r: [kani::any(), false], an_w: [kani::any(), false], ..NONE };
        triple_is_greedy([mk(), mk(), mk()], P_ATT_NODE, 1);
        reach!();
    }
}

//@ tier=off timeout=1200 bits=6 unwind=6 unwindset="memcmp=34" fns=warp_core::scheduler::RadixScheduler::reserve,LegacyScheduler::reserve,warp_core::engine_impl::footprints_conflict
//@ bounds="three candidates, one instance; port in/out membership symbolic (2 bits each)"
//@ desc="three candidates over boundary ports: greedy reference, rejection reserves nothing, exact blockers"
proof! {
    fn c03_triple_ports() {
        let mk = || Bits { b_in: [kani::any(), false], b_out: [kani::any(), false], ..NONE };
        triple_is_greedy([mk(), mk(), mk()], P_PORT, 1);
        reach!();
    }
}

//@ tier=quick timeout=600 bits=9 unwind=6 unwindset="memcmp=34" fns=warp_core::footprint::Footprint::independent
//@ bounds="two candidates sharing node N in one instance (write/write), factor masks symbolic"
//@ desc="mask premise: with disjoint partition masks `independent` short-circuits to true (documented), with overlapping masks it reports the conflict - i.e. the legacy scheduler agrees with radix exactly when masks are sound"
proof! {
    fn c03_mask_soundness_premise() {
        let a = Bits { n_w: [true, false], ..NONE };
        let (mut fa, mut fb) = (build(0, &a, P_NODE, 1), build(1, &a, P_NODE, 1));
        let (ma, mb): (u64, u64) = (kani::any::<u8>() as u64, kani::any::<u8>() as u64);
        fa.factor_mask = ma;
        fb.factor_mask = mb;
        let ind = fa.independent(&fb);
        assert!(ind == ((ma & mb) == 0));
        core::mem::forget((fa, fb));
        reach!();
    }
}

//@ tier=off timeout=300 bits=1 unwind=6 unwindset="memcmp=34" fns=warp_core::scheduler::RadixScheduler::reserve,LegacyScheduler::reserve,warp_core::footprint::Footprint::independent
//@ bounds="genuinely empty footprints and one single-key footprint"
//@ desc="empty sets: an empty footprint conflicts with nothing and reserves nothing (covers the is-empty paths the private-dummy encoding never takes)"
proof! {
    fn c03_empty_footprints() {
        let mut f = Footprint::default();
        f.factor_mask = u64::MAX;
        if kani::any() { f.n_write.insert(NodeKey { warp_id: W[0], local_id: N }); }
        let e = Footprint { factor_mask: u64::MAX, ..Footprint::default() };
        let fps = [e.clone(), f.clone(), e.clone(), f];
        let r = radix_reserve(&fps);
        let l = legacy_reserve(&fps);
        let second_f_ok = fps[3].n_write.is_empty();
        assert!(r[0] && r[1] && r[2] && r[3] == second_f_ok);
        assert!(l[0] && l[1] && l[2] && l[3] == second_f_ok);
        assert!(!receipt_conflict(&fps[0], &fps[1]) && fps[0].independent(&fps[1]));
        core::mem::forget(fps);
        reach!();
    }
}

