//! C05-D1/D3: the commit id (and the TTD tick-commit id) bind every field they are documented
//! to bind. BLAKE3 is the transcript model (R2): two digests are equal exactly when the two
//! preimages are equal byte strings, so `digest equal => fields equal` is the statement
//! "the preimage encoding is injective in every field" - a byte-level question.
use crate::kani;
use warp_core::{compute_commit_hash_v2, compute_tick_commit_hash_v2};

fn eq32(a: &[u8; 32], b: &[u8; 32]) -> bool {
    let mut i = 0;
    let mut same = true;
    while i < 32 {
        if a[i] != b[i] { same = false; }
        i += 1;
    }
    same
}

//@ tier=quick timeout=900 mem=8 bits=1352 unwind=3 unwindset="hashmodel=330;eq32=33;memcmp=34" fns=warp_core::snapshot::compute_commit_hash_v2
//@ bounds="two arbitrary argument tuples: 0..=2 parents (all 32 bytes symbolic), state root, patch digest (32 symbolic bytes each), policy id (u32)"
//@ desc="commit id v2: equal ids => equal parent count, equal parents in order, equal state root, equal patch digest, equal policy id; unequal in any of them => unequal id"
proof_h! {
    fn c05_commit_id_binds_every_field() {
        let (sr1, sr2): ([u8; 32], [u8; 32]) = (kani::any(), kani::any());
        let (pd1, pd2): ([u8; 32], [u8; 32]) = (kani::any(), kani::any());
        let (pa1, pa2): ([[u8; 32]; 2], [[u8; 32]; 2]) = (kani::any(), kani::any());
        let (n1, n2): (usize, usize) = (kani::any(), kani::any());
        kani::assume(n1 <= 2 && n2 <= 2);
        let (po1, po2): (u32, u32) = (kani::any(), kani::any());
        let h1 = compute_commit_hash_v2(&sr1, &pa1[..n1], &pd1, po1);
        let h2 = compute_commit_hash_v2(&sr2, &pa2[..n2], &pd2, po2);
        let mut same = n1 == n2 && po1 == po2 && eq32(&sr1, &sr2) && eq32(&pd1, &pd2);
        if n1 == n2 {
            if n1 >= 1 && !eq32(&pa1[0], &pa2[0]) { same = false; }
            if n1 >= 2 && !eq32(&pa1[1], &pa2[1]) { same = false; }
        }
        assert!(eq32(&h1, &h2) == same, "commit id does not bind exactly (parents, state root, patch digest, policy)");
        reach!();
    }
}

//@ tier=quick timeout=900 mem=8 bits=1500 unwind=3 unwindset="hashmodel=330;eq32=33;memcmp=34" fns=warp_core::snapshot::compute_tick_commit_hash_v2
//@ bounds="two arbitrary argument tuples: schema hash, worldline id, tick (u64), 0..=1 parent, patch digest, optional state root, emissions digest, optional op-emission-index digest; all bytes symbolic"
//@ desc="tick commit id v2: equal ids <=> every argument equal (optional fields: same presence and same bytes)"
proof_h! {
    fn c05_tick_commit_id_binds_every_field() {
        let (sc1, sc2): ([u8; 32], [u8; 32]) = (kani::any(), kani::any());
        let (wl1, wl2): ([u8; 32], [u8; 32]) = (kani::any(), kani::any());
        let (t1, t2): (u64, u64) = (kani::any(), kani::any());
        let (pa1, pa2): ([[u8; 32]; 1], [[u8; 32]; 1]) = (kani::any(), kani::any());
        let (n1, n2): (usize, usize) = (kani::any(), kani::any());
        kani::assume(n1 <= 1 && n2 <= 1);
        let (pd1, pd2): ([u8; 32], [u8; 32]) = (kani::any(), kani::any());
        let (sr1, sr2): ([u8; 32], [u8; 32]) = (kani::any(), kani::any());
        let (hs1, hs2): (bool, bool) = (kani::any(), kani::any());
        let (em1, em2): ([u8; 32], [u8; 32]) = (kani::any(), kani::any());
        let (oe1, oe2): ([u8; 32], [u8; 32]) = (kani::any(), kani::any());
        let (ho1, ho2): (bool, bool) = (kani::any(), kani::any());
        let w1 = warp_core::WorldlineId::from_bytes(wl1);
        let w2 = warp_core::WorldlineId::from_bytes(wl2);
        let h1 = compute_tick_commit_hash_v2(&sc1, &w1, t1, &pa1[..n1], &pd1, if hs1 { Some(&sr1) } else { None }, &em1, if ho1 { Some(&oe1) } else { None });
        let h2 = compute_tick_commit_hash_v2(&sc2, &w2, t2, &pa2[..n2], &pd2, if hs2 { Some(&sr2) } else { None }, &em2, if ho2 { Some(&oe2) } else { None });
        let mut same = eq32(&sc1, &sc2) && eq32(&wl1, &wl2) && t1 == t2 && n1 == n2 && eq32(&pd1, &pd2)
            && hs1 == hs2 && eq32(&em1, &em2) && ho1 == ho2;
        if n1 == n2 && n1 == 1 && !eq32(&pa1[0], &pa2[0]) { same = false; }
        if hs1 && hs2 && !eq32(&sr1, &sr2) { same = false; }
        if ho1 && ho2 && !eq32(&oe1, &oe2) { same = false; }
        assert!(eq32(&h1, &h2) == same, "tick commit id does not bind exactly its arguments");
        reach!();
    }
}
