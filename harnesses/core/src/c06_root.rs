//! C06 (kernel): the state root binds every reachable record and ignores unreachable content,
//! and the two root engines agree - on small states whose *shape* is concrete (ids, topology)
//! and whose record *contents* are symbolic. BLAKE3 is the transcript model (R2).
use crate::kani;
use warp_core::verif_hooks::{accumulator_root, state_root, state_upsert_instance};
use warp_core::{
    AtomPayload, AttachmentValue, EdgeId, EdgeRecord, GraphStore, NodeId, NodeKey, NodeRecord, TypeId, WarpId, WarpInstance, WarpState,
};

const W: WarpId = WarpId([0xA0; 32]);
const A: NodeId = NodeId([0x11; 32]);
const B: NodeId = NodeId([0x12; 32]);
const U: NodeId = NodeId([0x13; 32]); // unreachable
const E: EdgeId = EdgeId([0x21; 32]);

fn id32() -> [u8; 32] { kani::any() }

fn eq32(a: &[u8; 32], b: &[u8; 32]) -> bool {
    let mut i = 0;
    let mut same = true;
    while i < 32 { if a[i] != b[i] { same = false; } i += 1; }
    same
}

#[derive(Clone, PartialEq)]
struct Recs { ta: TypeId, tb: TypeId, te: TypeId, at: TypeId, ab: [u8; 2] }

fn recs() -> Recs { Recs { ta: TypeId(id32()), tb: TypeId(id32()), te: TypeId(id32()), at: TypeId(id32()), ab: kani::any() } }

/// A -E-> B, atom attachment on E; optionally an unreachable node U with symbolic content.
fn state(r: &Recs, with_unreachable: bool) -> WarpState {
    let mut g = GraphStore::new(W);
    g.insert_node(A, NodeRecord { ty: r.ta });
    g.insert_node(B, NodeRecord { ty: r.tb });
    g.insert_edge(A, EdgeRecord { id: E, from: A, to: B, ty: r.te });
    g.set_edge_attachment(E, Some(AttachmentValue::Atom(AtomPayload::new(r.at, bytes::Bytes::copy_from_slice(&r.ab)))));
    if with_unreachable {
        g.insert_node(U, NodeRecord { ty: TypeId(id32()) });
        g.set_node_attachment(U, Some(AttachmentValue::Atom(AtomPayload::new(TypeId(id32()), bytes::Bytes::copy_from_slice(&kani::any::<[u8; 1]>())))));
    }
    let mut s = WarpState::new();
    state_upsert_instance(&mut s, WarpInstance { warp_id: W, root_node: A, parent: None }, g);
    s
}

const ROOT: NodeKey = NodeKey { warp_id: W, local_id: A };

//@ tier=off timeout=2400 mem=16 bits=2100 unwind=7 unwindset="hashmodel=520;eq32=33;memcmp=34" fns=warp_core::snapshot::compute_state_root,collect_reachable_graph,hash_attachment_value,hash_atom_payload
//@ bounds="one instance, nodes A -E-> B, atom attachment (2 bytes) on E; node types, edge type, attachment type id and bytes symbolic in two states of this shape"
//@ desc="state root changes whenever a reachable node type, edge type, attachment type or attachment byte changes: equal roots <=> equal reachable contents"
proof_h! {
    fn c06_state_root_binds_reachable_contents() {
        let (r1, r2) = (recs(), recs());
        let (s1, s2) = (state(&r1, false), state(&r2, false));
        let same_root = eq32(&state_root(&s1, &ROOT), &state_root(&s2, &ROOT));
        assert!(same_root == (r1 == r2), "state root does not bind exactly the reachable contents");
        core::mem::forget((s1, s2));
        reach!();
    }
}

//@ tier=off timeout=2400 mem=16 bits=1400 unwind=7 unwindset="hashmodel=520;eq32=33;memcmp=34" fns=warp_core::snapshot::compute_state_root,collect_reachable_graph
//@ bounds="the same shape with and without an unreachable node U carrying a symbolic type and a symbolic attachment"
//@ desc="unreachable content does not enter the state root"
proof_h! {
    fn c06_state_root_ignores_unreachable() {
        let r = recs();
        let (s1, s2) = (state(&r, false), state(&r, true));
        assert!(eq32(&state_root(&s1, &ROOT), &state_root(&s2, &ROOT)), "unreachable content changed the state root");
        core::mem::forget((s1, s2));
        reach!();
    }
}

//@ tier=off timeout=2400 mem=16 bits=1100 unwind=7 unwindset="hashmodel=520;eq32=33;memcmp=34" fns=warp_core::snapshot::compute_state_root,warp_core::snapshot_accum::SnapshotAccumulator::from_warp_state,SnapshotAccumulator::build
//@ bounds="the same shape (with the unreachable node), contents symbolic"
//@ desc="the two independent state-root engines (graph walk and columnar accumulator) produce the same root"
proof_h! {
    fn c06_root_engines_agree() {
        let r = recs();
        let s = state(&r, true);
        assert!(eq32(&state_root(&s, &ROOT), &accumulator_root(&s, &ROOT)), "state-root engines disagree");
        core::mem::forget(s);
        reach!();
    }
}
