//! C05-D2: the patch digest binds every field of the patch - policy, rule pack, commit status,
//! read/written slots and every field of every op - so "the patch is the only replay authority"
//! cannot be undermined by a field left outside the hash. BLAKE3 is the transcript model (R2).
use crate::kani;
use warp_core::{
    AtomPayload, AttachmentKey, AttachmentValue, EdgeId, EdgeKey, EdgeRecord, NodeId, NodeKey, NodeRecord, PortalInit,
    SlotId, TickCommitStatus, TypeId, WarpId, WarpInstance, WarpOp, WarpTickPatchV1,
};

fn id32() -> [u8; 32] { kani::any() }

fn eq32(a: &[u8; 32], b: &[u8; 32]) -> bool {
    let mut i = 0;
    let mut same = true;
    while i < 32 { if a[i] != b[i] { same = false; } i += 1; }
    same
}

fn atom() -> AttachmentValue {
    let b: [u8; 2] = kani::any();
    let n: usize = if kani::any() { 1 } else { 2 };
    AttachmentValue::Atom(AtomPayload::new(TypeId(id32()), bytes::Bytes::copy_from_slice(&b[..n])))
}

/// One op of the requested shape with every field symbolic.
fn op_of(kind: u8) -> WarpOp {
    let warp = WarpId(id32());
    let node = NodeKey { warp_id: warp, local_id: NodeId(id32()) };
    let edge = EdgeKey { warp_id: warp, local_id: EdgeId(id32()) };
    match kind {
        0 => WarpOp::OpenPortal { key: AttachmentKey::node_alpha(node), child_warp: WarpId(id32()), child_root: NodeId(id32()), init: PortalInit::Empty { root_record: NodeRecord { ty: TypeId(id32()) } } },
        1 => WarpOp::OpenPortal { key: AttachmentKey::edge_beta(edge), child_warp: WarpId(id32()), child_root: NodeId(id32()), init: PortalInit::RequireExisting },
        2 => WarpOp::UpsertWarpInstance { instance: WarpInstance { warp_id: warp, parent: Some(AttachmentKey::node_alpha(node)), root_node: NodeId(id32()) } },
        3 => WarpOp::UpsertWarpInstance { instance: WarpInstance { warp_id: warp, parent: None, root_node: NodeId(id32()) } },
        4 => WarpOp::DeleteWarpInstance { warp_id: warp },
        5 => WarpOp::DeleteEdge { warp_id: warp, from: NodeId(id32()), edge_id: EdgeId(id32()) },
        6 => WarpOp::DeleteNode { node },
        7 => WarpOp::UpsertNode { node, record: NodeRecord { ty: TypeId(id32()) } },
        8 => WarpOp::UpsertEdge { warp_id: warp, record: EdgeRecord { id: EdgeId(id32()), from: NodeId(id32()), to: NodeId(id32()), ty: TypeId(id32()) } },
        9 => WarpOp::SetAttachment { key: AttachmentKey::node_alpha(node), value: None },
        10 => WarpOp::SetAttachment { key: AttachmentKey::edge_beta(edge), value: Some(AttachmentValue::Descend(WarpId(id32()))) },
        _ => WarpOp::SetAttachment { key: AttachmentKey::node_alpha(node), value: Some(atom()) },
    }
}

fn slot_of(kind: u8) -> SlotId {
    let warp = WarpId(id32());
    match kind {
        0 => SlotId::Node(NodeKey { warp_id: warp, local_id: NodeId(id32()) }),
        1 => SlotId::Edge(EdgeKey { warp_id: warp, local_id: EdgeId(id32()) }),
        2 => SlotId::Attachment(AttachmentKey::node_alpha(NodeKey { warp_id: warp, local_id: NodeId(id32()) })),
        _ => SlotId::Port((warp, kani::any())),
    }
}

fn patch(op_kind: u8, slot_kind: u8) -> WarpTickPatchV1 {
    let status = if kani::any() { TickCommitStatus::Committed } else { TickCommitStatus::Aborted };
    WarpTickPatchV1::new(kani::any(), id32(), status, vec![slot_of(slot_kind)], vec![slot_of(3 - slot_kind)], vec![op_of(op_kind)])
}

/// Two patches of the same shape, all field contents symbolic: equal digests => equal patches.
#[inline(always)]
fn same_shape_injective(lo: u8, hi: u8) {
    let mut k = lo;
    while k <= hi {
        #[cfg(kani)]
        crate::hashmodel::reset();
        let (p1, p2) = (patch(k, k & 3), patch(k, k & 3));
        let same_digest = eq32(&p1.digest(), &p2.digest());
        let same_patch = p1.policy_id() == p2.policy_id() && eq32(&p1.rule_pack_id(), &p2.rule_pack_id())
            && p1.commit_status() == p2.commit_status() && p1.in_slots()[0] == p2.in_slots()[0]
            && p1.out_slots()[0] == p2.out_slots()[0] && p1.ops()[0] == p2.ops()[0];
        assert!(same_digest == same_patch, "patch digest does not bind exactly the patch contents");
        core::mem::forget((p1, p2));
        k += 1;
    }
}

//@ tier=quick timeout=2400 mem=14 bits=4000 unwind=5 unwindset="hashmodel=520;eq32=33;memcmp=34" fns=warp_core::tick_patch::WarpTickPatchV1::new,compute_patch_digest_v2,encode_slots,encode_ops,encode_portal_init,encode_attachment_key
//@ bounds="one-op patches with one read slot and one written slot; op shapes: OpenPortal (both inits, node/edge owner), UpsertWarpInstance (with/without parent); every id, the policy id, rule pack and status symbolic in both patches"
//@ desc="patch digest (instance-level ops): equal digests <=> equal policy, rule pack, status, slots and op"
proof_h! { fn c05_patch_digest_instance_ops() { same_shape_injective(0, 3); reach!(); } }

//@ tier=quick timeout=2400 mem=14 bits=4000 unwind=5 unwindset="hashmodel=520;eq32=33;memcmp=34" fns=warp_core::tick_patch::WarpTickPatchV1::new,compute_patch_digest_v2,encode_slots,encode_ops
//@ bounds="one-op patches; op shapes: DeleteWarpInstance, DeleteEdge, DeleteNode, UpsertNode; all fields symbolic"
//@ desc="patch digest (skeleton ops I): equal digests <=> equal patch contents"
proof_h! { fn c05_patch_digest_skeleton_ops_a() { same_shape_injective(4, 7); reach!(); } }

//@ tier=quick timeout=2400 mem=14 bits=4000 unwind=5 unwindset="hashmodel=520;eq32=33;memcmp=34" fns=warp_core::tick_patch::WarpTickPatchV1::new,compute_patch_digest_v2,encode_ops,encode_attachment_value,encode_atom_payload
//@ bounds="one-op patches; op shapes: UpsertEdge, SetAttachment(None / Descend / Atom with 1..2 symbolic bytes); all fields symbolic"
//@ desc="patch digest (edge and attachment ops): equal digests <=> equal patch contents, including attachment type id, length and bytes"
proof_h! { fn c05_patch_digest_edge_attachment_ops() { same_shape_injective(8, 11); reach!(); } }
