//! C05-D2: the patch digest binds every field of the patch - policy, rule pack, commit status,
//! read/written slots and every field of every op - so "the patch is the only replay authority"
//! cannot be undermined by a field left outside the hash. BLAKE3 is the transcript model (R2).
use crate::kani;
use warp_core::{
    AtomPayload, AttachmentKey, AttachmentValue, EdgeId, EdgeKey, EdgeRecord, NodeId, NodeKey, NodeRecord, PortalInit,
    SlotId, TickCommitStatus, TypeId, WarpId, WarpInstance, WarpOp, WarpTickPatchV1,
};

fn id32() -> [u8; 32] { kani::any() }

fn eq32(a: &[u8; 32], b: &[u8; 32]) -> bool {
    let mut i = 0;
    let mut same = true;
    while i < 32 { if a[i] != b[i] { same = false; } i += 1; }
    same
}

/// Atom attachment with a symbolic type id and `n` (concrete) symbolic payload bytes.
fn atom(n: usize) -> AttachmentValue {
    let b: [u8; 2] = kani::any();
    AttachmentValue::Atom(AtomPayload::new(TypeId(id32()), bytes::Bytes::copy_from_slice(&b[..n])))
}

/// One op of the requested shape with every field symbolic.
fn op_of(kind: u8) -> WarpOp {
    let warp = WarpId(id32());
    let node = NodeKey { warp_id: warp, local_id: NodeId(id32()) };
    let edge = EdgeKey { warp_id: warp, local_id: EdgeId(id32()) };
    match kind {
        0 => WarpOp::OpenPortal { key: AttachmentKey::node_alpha(node), child_warp: WarpId(id32()), child_root: NodeId(id32()), init: PortalInit::Empty { root_record: NodeRecord { ty: TypeId(id32()) } } },
        1 => WarpOp::OpenPortal { key: AttachmentKey::edge_beta(edge), child_warp: WarpId(id32()), child_root: NodeId(id32()), init: PortalInit::RequireExisting },
        2 => WarpOp::UpsertWarpInstance { instance: WarpInstance { warp_id: warp, parent: Some(AttachmentKey::node_alpha(node)), root_node: NodeId(id32()) } },
        3 => WarpOp::UpsertWarpInstance { instance: WarpInstance { warp_id: warp, parent: None, root_node: NodeId(id32()) } },
        4 => WarpOp::DeleteWarpInstance { warp_id: warp },
        5 => WarpOp::DeleteEdge { warp_id: warp, from: NodeId(id32()), edge_id: EdgeId(id32()) },
        6 => WarpOp::DeleteNode { node },
        7 => WarpOp::UpsertNode { node, record: NodeRecord { ty: TypeId(id32()) } },
        8 => WarpOp::UpsertEdge { warp_id: warp, record: EdgeRecord { id: EdgeId(id32()), from: NodeId(id32()), to: NodeId(id32()), ty: TypeId(id32()) } },
        9 => WarpOp::SetAttachment { key: AttachmentKey::node_alpha(node), value: None },
        10 => WarpOp::SetAttachment { key: AttachmentKey::edge_beta(edge), value: Some(AttachmentValue::Descend(WarpId(id32()))) },
        11 => WarpOp::SetAttachment { key: AttachmentKey::node_alpha(node), value: Some(atom(2)) },
        _ => WarpOp::SetAttachment { key: AttachmentKey::node_alpha(node), value: Some(atom(1)) },
    }
}

fn slot_of(kind: u8) -> SlotId {
    let warp = WarpId(id32());
    match kind {
        0 => SlotId::Node(NodeKey { warp_id: warp, local_id: NodeId(id32()) }),
        1 => SlotId::Edge(EdgeKey { warp_id: warp, local_id: EdgeId(id32()) }),
        2 => SlotId::Attachment(AttachmentKey::node_alpha(NodeKey { warp_id: warp, local_id: NodeId(id32()) })),
        _ => SlotId::Port((warp, kani::any())),
    }
}

struct Fields {
    policy: u32,
    rule_pack: [u8; 32],
    status: TickCommitStatus,
    in_slot: SlotId,
    out_slot: SlotId,
    op: WarpOp,
}

fn fields(op_kind: u8, slot_kind: u8) -> Fields {
    Fields {
        policy: kani::any(),
        rule_pack: id32(),
        status: if kani::any() { TickCommitStatus::Committed } else { TickCommitStatus::Aborted },
        in_slot: slot_of(slot_kind),
        out_slot: slot_of(3 - slot_kind),
        op: op_of(op_kind),
    }
}

fn digest(f: &Fields) -> [u8; 32] {
    warp_core::verif_hooks::patch_digest(f.policy, &f.rule_pack, f.status, core::slice::from_ref(&f.in_slot),
        core::slice::from_ref(&f.out_slot), core::slice::from_ref(&f.op))
}

/// Two patches of the same shape, all field contents symbolic: equal digests <=> equal contents.
/// The digest kernel is called on canonical one-element lists (what `WarpTickPatchV1::new` hands
/// it after sorting/deduping; the canonicalisation itself is C01's op-key obligation).
#[inline(always)]
fn same_shape_injective(lo: u8, hi: u8) {
    let mut k = lo;
    while k <= hi {
        #[cfg(kani)]
        crate::hashmodel::reset();
        let (p1, p2) = (fields(k, k & 3), fields(k, k & 3));
        let same_digest = eq32(&digest(&p1), &digest(&p2));
        let same_patch = p1.policy == p2.policy && eq32(&p1.rule_pack, &p2.rule_pack) && p1.status == p2.status
            && p1.in_slot == p2.in_slot && p1.out_slot == p2.out_slot && p1.op == p2.op;
        assert!(same_digest == same_patch, "patch digest does not bind exactly the patch contents");
        core::mem::forget((p1, p2));
        k += 1;
    }
}

//@ tier=quick timeout=2400 mem=14 bits=1500 unwind=5 unwindset="hashmodel=520;eq32=33;memcmp=34" fns=warp_core::tick_patch::compute_patch_digest_v2,encode_slots,encode_ops,encode_portal_init,encode_attachment_key,encode_attachment_value,encode_atom_payload
//@ bounds="two one-op patches of the same shape (digest kernel on canonical one-element lists) - op: OpenPortal (node owner, Empty init with root record type); one read slot and one written slot; every id, the policy id, the rule pack and the commit status symbolic in both patches"
//@ desc="patch digest: equal digests <=> equal policy, rule pack, status, slots and op (OpenPortal (node owner, Empty init with root record type))"
proof_h! { fn c05_patch_digest_open_portal_empty() { same_shape_injective(0, 0); reach!(); } }

//@ tier=quick timeout=2400 mem=14 bits=1500 unwind=5 unwindset="hashmodel=520;eq32=33;memcmp=34" fns=warp_core::tick_patch::compute_patch_digest_v2,encode_slots,encode_ops,encode_portal_init,encode_attachment_key,encode_attachment_value,encode_atom_payload
//@ bounds="two one-op patches of the same shape (digest kernel on canonical one-element lists) - op: OpenPortal (edge owner, RequireExisting); one read slot and one written slot; every id, the policy id, the rule pack and the commit status symbolic in both patches"
//@ desc="patch digest: equal digests <=> equal policy, rule pack, status, slots and op (OpenPortal (edge owner, RequireExisting))"
proof_h! { fn c05_patch_digest_open_portal_existing() { same_shape_injective(1, 1); reach!(); } }

//@ tier=quick timeout=2400 mem=14 bits=1500 unwind=5 unwindset="hashmodel=520;eq32=33;memcmp=34" fns=warp_core::tick_patch::compute_patch_digest_v2,encode_slots,encode_ops,encode_portal_init,encode_attachment_key,encode_attachment_value,encode_atom_payload
//@ bounds="two one-op patches of the same shape (digest kernel on canonical one-element lists) - op: UpsertWarpInstance with a parent slot; one read slot and one written slot; every id, the policy id, the rule pack and the commit status symbolic in both patches"
//@ desc="patch digest: equal digests <=> equal policy, rule pack, status, slots and op (UpsertWarpInstance with a parent slot)"
proof_h! { fn c05_patch_digest_upsert_instance_parent() { same_shape_injective(2, 2); reach!(); } }

//@ tier=quick timeout=2400 mem=14 bits=1500 unwind=5 unwindset="hashmodel=520;eq32=33;memcmp=34" fns=warp_core::tick_patch::compute_patch_digest_v2,encode_slots,encode_ops,encode_portal_init,encode_attachment_key,encode_attachment_value,encode_atom_payload
//@ bounds="two one-op patches of the same shape (digest kernel on canonical one-element lists) - op: UpsertWarpInstance without parent; one read slot and one written slot; every id, the policy id, the rule pack and the commit status symbolic in both patches"
//@ desc="patch digest: equal digests <=> equal policy, rule pack, status, slots and op (UpsertWarpInstance without parent)"
proof_h! { fn c05_patch_digest_upsert_instance_root() { same_shape_injective(3, 3); reach!(); } }

//@ tier=quick timeout=2400 mem=14 bits=1500 unwind=5 unwindset="hashmodel=520;eq32=33;memcmp=34" fns=warp_core::tick_patch::compute_patch_digest_v2,encode_slots,encode_ops,encode_portal_init,encode_attachment_key,encode_attachment_value,encode_atom_payload
//@ bounds="two one-op patches of the same shape (digest kernel on canonical one-element lists) - op: DeleteWarpInstance; one read slot and one written slot; every id, the policy id, the rule pack and the commit status symbolic in both patches"
//@ desc="patch digest: equal digests <=> equal policy, rule pack, status, slots and op (DeleteWarpInstance)"
proof_h! { fn c05_patch_digest_delete_instance() { same_shape_injective(4, 4); reach!(); } }

//@ tier=quick timeout=2400 mem=14 bits=1500 unwind=5 unwindset="hashmodel=520;eq32=33;memcmp=34" fns=warp_core::tick_patch::compute_patch_digest_v2,encode_slots,encode_ops,encode_portal_init,encode_attachment_key,encode_attachment_value,encode_atom_payload
//@ bounds="two one-op patches of the same shape (digest kernel on canonical one-element lists) - op: DeleteEdge; one read slot and one written slot; every id, the policy id, the rule pack and the commit status symbolic in both patches"
//@ desc="patch digest: equal digests <=> equal policy, rule pack, status, slots and op (DeleteEdge)"
proof_h! { fn c05_patch_digest_delete_edge() { same_shape_injective(5, 5); reach!(); } }

//@ tier=quick timeout=2400 mem=14 bits=1500 unwind=5 unwindset="hashmodel=520;eq32=33;memcmp=34" fns=warp_core::tick_patch::compute_patch_digest_v2,encode_slots,encode_ops,encode_portal_init,encode_attachment_key,encode_attachment_value,encode_atom_payload
//@ bounds="two one-op patches of the same shape (digest kernel on canonical one-element lists) - op: DeleteNode; one read slot and one written slot; every id, the policy id, the rule pack and the commit status symbolic in both patches"
//@ desc="patch digest: equal digests <=> equal policy, rule pack, status, slots and op (DeleteNode)"
proof_h! { fn c05_patch_digest_delete_node() { same_shape_injective(6, 6); reach!(); } }

//@ tier=quick timeout=2400 mem=14 bits=1500 unwind=5 unwindset="hashmodel=520;eq32=33;memcmp=34" fns=warp_core::tick_patch::compute_patch_digest_v2,encode_slots,encode_ops,encode_portal_init,encode_attachment_key,encode_attachment_value,encode_atom_payload
//@ bounds="two one-op patches of the same shape (digest kernel on canonical one-element lists) - op: UpsertNode; one read slot and one written slot; every id, the policy id, the rule pack and the commit status symbolic in both patches"
//@ desc="patch digest: equal digests <=> equal policy, rule pack, status, slots and op (UpsertNode)"
proof_h! { fn c05_patch_digest_upsert_node() { same_shape_injective(7, 7); reach!(); } }

//@ tier=quick timeout=2400 mem=14 bits=1500 unwind=5 unwindset="hashmodel=520;eq32=33;memcmp=34" fns=warp_core::tick_patch::compute_patch_digest_v2,encode_slots,encode_ops,encode_portal_init,encode_attachment_key,encode_attachment_value,encode_atom_payload
//@ bounds="two one-op patches of the same shape (digest kernel on canonical one-element lists) - op: UpsertEdge; one read slot and one written slot; every id, the policy id, the rule pack and the commit status symbolic in both patches"
//@ desc="patch digest: equal digests <=> equal policy, rule pack, status, slots and op (UpsertEdge)"
proof_h! { fn c05_patch_digest_upsert_edge() { same_shape_injective(8, 8); reach!(); } }

//@ tier=quick timeout=2400 mem=14 bits=1500 unwind=5 unwindset="hashmodel=520;eq32=33;memcmp=34" fns=warp_core::tick_patch::compute_patch_digest_v2,encode_slots,encode_ops,encode_portal_init,encode_attachment_key,encode_attachment_value,encode_atom_payload
//@ bounds="two one-op patches of the same shape (digest kernel on canonical one-element lists) - op: SetAttachment(node slot, None); one read slot and one written slot; every id, the policy id, the rule pack and the commit status symbolic in both patches"
//@ desc="patch digest: equal digests <=> equal policy, rule pack, status, slots and op (SetAttachment(node slot, None))"
proof_h! { fn c05_patch_digest_set_attachment_none() { same_shape_injective(9, 9); reach!(); } }

//@ tier=quick timeout=2400 mem=14 bits=1500 unwind=5 unwindset="hashmodel=520;eq32=33;memcmp=34" fns=warp_core::tick_patch::compute_patch_digest_v2,encode_slots,encode_ops,encode_portal_init,encode_attachment_key,encode_attachment_value,encode_atom_payload
//@ bounds="two one-op patches of the same shape (digest kernel on canonical one-element lists) - op: SetAttachment(edge slot, Descend); one read slot and one written slot; every id, the policy id, the rule pack and the commit status symbolic in both patches"
//@ desc="patch digest: equal digests <=> equal policy, rule pack, status, slots and op (SetAttachment(edge slot, Descend))"
proof_h! { fn c05_patch_digest_set_attachment_descend() { same_shape_injective(10, 10); reach!(); } }

//@ tier=quick timeout=2400 mem=14 bits=1500 unwind=5 unwindset="hashmodel=520;eq32=33;memcmp=34" fns=warp_core::tick_patch::compute_patch_digest_v2,encode_slots,encode_ops,encode_portal_init,encode_attachment_key,encode_attachment_value,encode_atom_payload
//@ bounds="two one-op patches of the same shape (digest kernel on canonical one-element lists) - op: SetAttachment(node slot, Atom with 2 symbolic bytes and symbolic type id); one read slot and one written slot; every id, the policy id, the rule pack and the commit status symbolic in both patches"
//@ desc="patch digest: equal digests <=> equal policy, rule pack, status, slots and op (SetAttachment(node slot, Atom with 2 symbolic bytes and symbolic type id))"
proof_h! { fn c05_patch_digest_set_attachment_atom() { same_shape_injective(11, 11); reach!(); } }


//@ tier=quick timeout=2400 mem=14 bits=1500 unwind=5 unwindset="hashmodel=520;eq32=33;memcmp=34" fns=warp_core::tick_patch::compute_patch_digest_v2,encode_attachment_value,encode_atom_payload
//@ bounds="two one-op patches SetAttachment(Atom): payload of 1 symbolic byte vs payload of 2 symbolic bytes, every other field symbolic in both"
//@ desc="patch digest: atom payloads of different length never collide (the length prefix is bound), whatever the bytes and the other fields are"
proof_h! {
    fn c05_patch_digest_atom_length_bound() {
        let (p1, p2) = (fields(11, 3), fields(12, 3));
        assert!(!eq32(&digest(&p1), &digest(&p2)), "patch digests of atoms with different payload length collide");
        core::mem::forget((p1, p2));
        reach!();
    }
}

/// Two-op lists whose ops share tags pairwise but place their optional field in different
/// positions have preimages of equal length; if an optional field leaves no presence marker the
/// bytes of the second op can be read as the tail of the first and two different lists share a
/// digest. `digest equal => lists equal` must hold for every content.
#[inline(always)]
fn two_op_lists_injective(a: [u8; 2], b: [u8; 2]) {
    #[cfg(kani)]
    crate::hashmodel::reset();
    let la = vec![op_of(a[0]), op_of(a[1])];
    let lb = vec![op_of(b[0]), op_of(b[1])];
    let policy: u32 = kani::any();
    let rule_pack = id32();
    let (si, so) = (slot_of(0), slot_of(3));
    let d = |l: &Vec<WarpOp>| warp_core::verif_hooks::patch_digest(policy, &rule_pack, TickCommitStatus::Committed,
        core::slice::from_ref(&si), core::slice::from_ref(&so), l);
    let same_digest = eq32(&d(&la), &d(&lb));
    let same_lists = la[0] == lb[0] && la[1] == lb[1];
    assert!(!same_digest || same_lists, "two different op lists have the same patch digest");
    core::mem::forget((la, lb));
}

//@ tier=off timeout=2400 mem=14 bits=3000 unwind=5 unwindset="hashmodel=520;eq32=33;memcmp=34" fns=warp_core::tick_patch::compute_patch_digest_v2,encode_ops,encode_attachment_key_opt
//@ bounds="op lists [UpsertWarpInstance(no parent), UpsertWarpInstance(parent)] vs [UpsertWarpInstance(parent), UpsertWarpInstance(no parent)]; every id symbolic (so the solver may align any bytes of one op with any field of the other)"
//@ desc="patch digest is uniquely decodable across an optional instance parent: the absent parent leaves a marker, so no choice of ids makes the two differently shaped lists hash alike"
proof_h! { fn c05_patch_digest_optional_parent_unambiguous() { two_op_lists_injective([3, 2], [2, 3]); reach!(); } }

//@ tier=off timeout=2400 mem=14 bits=3000 unwind=5 unwindset="hashmodel=520;eq32=33;memcmp=34" fns=warp_core::tick_patch::compute_patch_digest_v2,encode_ops,encode_portal_init
//@ bounds="op lists [OpenPortal(RequireExisting), OpenPortal(Empty{root type})] vs [OpenPortal(Empty), OpenPortal(RequireExisting)]; every id symbolic"
//@ desc="patch digest is uniquely decodable across the portal-init variants"
proof_h! { fn c05_patch_digest_portal_init_unambiguous() { two_op_lists_injective([1, 0], [0, 1]); reach!(); } }

//@ tier=off timeout=2400 mem=14 bits=3000 unwind=5 unwindset="hashmodel=520;eq32=33;memcmp=34" fns=warp_core::tick_patch::compute_patch_digest_v2,encode_ops,encode_attachment_value_opt,encode_attachment_value
//@ bounds="op lists [SetAttachment(None), SetAttachment(Descend)] vs [SetAttachment(Descend), SetAttachment(None)] on node/edge slots; every id symbolic"
//@ desc="patch digest is uniquely decodable across present/absent attachment values"
proof_h! { fn c05_patch_digest_optional_value_unambiguous() { two_op_lists_injective([9, 10], [10, 9]); reach!(); } }

/// `t1` (length `n1`) is a proper prefix of `t2` (length `n2`).
#[cfg(kani)]
fn proper_prefix(t1: &[u8; crate::hashmodel::CAP], n1: usize, t2: &[u8; crate::hashmodel::CAP], n2: usize) -> bool {
    if n1 >= n2 { return false; }
    let mut i = 0;
    let mut same = true;
    while i < n1 { if t1[i] != t2[i] { same = false; } i += 1; }
    same
}

/// Op shapes that share a tag byte must still be uniquely decodable: with equal header and
/// slots, the preimage of a one-op patch of shape `k1` is never a proper prefix of the preimage
/// of a one-op patch of shape `k2`. (A prefix pair lets the bytes of a *following* op be read as
/// the tail of this one, i.e. two different op lists with one digest.)
#[inline(always)]
fn no_prefix_pair(k1: u8, k2: u8) {
    #[cfg(kani)]
    {
        crate::hashmodel::reset();
        let f1 = fields(k1, 0);
        let mut f2 = fields(k2, 0);
        // same header and slots; only the op differs in shape and content
        f2.policy = f1.policy; f2.rule_pack = f1.rule_pack; f2.status = f1.status; f2.in_slot = f1.in_slot; f2.out_slot = f1.out_slot;
        // the shared leading fields of the op (instance, owner ids) are left independent: a prefix must be excluded for all of them
        let _ = digest(&f1);
        let (t1, n1) = crate::hashmodel::transcript();
        let _ = digest(&f2);
        let (t2, n2) = crate::hashmodel::transcript();
        assert!(!proper_prefix(&t1, n1, &t2, n2) && !proper_prefix(&t2, n2, &t1, n1), "op encodings with the same tag are not prefix-free");
        core::mem::forget((f1, f2));
    }
}

//@ tier=quick timeout=2400 mem=14 bits=3000 unwind=5 unwindset="hashmodel=520;eq32=33;memcmp=34;proper_prefix=520" fns=warp_core::tick_patch::compute_patch_digest_v2,encode_ops,encode_attachment_key_opt,encode_portal_init,encode_attachment_value_opt
//@ bounds="one-op patches with identical header/slots; op shape pairs that share a tag byte: UpsertWarpInstance with/without parent, OpenPortal Empty/RequireExisting; all ids symbolic"
//@ desc="patch digest preimage is uniquely decodable: an optional field (instance parent, portal init) always leaves a presence marker, so one op's bytes are never a proper prefix of another's"
proof_h! {
    fn c05_patch_digest_optional_fields_prefix_free() {
        no_prefix_pair(3, 2);
        no_prefix_pair(1, 0);
        reach!();
    }
}

//@ tier=quick timeout=2400 mem=14 bits=3000 unwind=5 unwindset="hashmodel=520;eq32=33;memcmp=34;proper_prefix=520" fns=warp_core::tick_patch::compute_patch_digest_v2,encode_ops,encode_attachment_value_opt,encode_attachment_value,encode_atom_payload
//@ bounds="one-op patches with identical header/slots; SetAttachment shape pairs: None vs Descend, None vs Atom, Descend vs Atom(2), Atom(1) vs Atom(2); all ids and bytes symbolic"
//@ desc="patch digest preimage is uniquely decodable for attachment values: absent / Descend / Atom of each length are never prefixes of one another"
proof_h! {
    fn c05_patch_digest_attachment_values_prefix_free() {
        no_prefix_pair(9, 11);
        no_prefix_pair(12, 11);
        reach!();
    }
}
