//! C18-D1: reducers declared commutative are invariant under every re-ordering (= re-keying)
//! of their inputs, including inputs of unequal length.
use crate::kani;
use warp_core::materialization::ReduceOp;

const L: usize = 3;

fn payload() -> Vec<u8> {
    let buf: [u8; L] = kani::any();
    let len: usize = kani::any();
    kani::assume(len <= L);
    buf[..len].to_vec()
}

fn same(a: &Vec<u8>, b: &Vec<u8>) -> bool {
    if a.len() != b.len() { return false; }
    let mut i = 0;
    while i < 8 {
        if i < a.len() && a[i] != b[i] { return false; }
        i += 1;
    }
    true
}

#[inline(always)]
fn perm3_invariant(op: ReduceOp) {
    let v = [payload(), payload(), payload()];
    let p: u8 = kani::any();
    kani::assume(p < 6);
    let idx: [usize; 3] = match p { 0 => [0, 1, 2], 1 => [0, 2, 1], 2 => [1, 0, 2], 3 => [1, 2, 0], 4 => [2, 0, 1], _ => [2, 1, 0] };
    let base = op.apply(vec![v[0].clone(), v[1].clone(), v[2].clone()]);
    let perm = op.apply(vec![v[idx[0]].clone(), v[idx[1]].clone(), v[idx[2]].clone()]);
    assert!(same(&base, &perm), "commutative reducer result depends on input order");
    core::mem::forget((v, base, perm));
}

//@ tier=quick timeout=900 bits=81 unwind=10 fns=warp_core::materialization::reduce_op::ReduceOp::apply,bitwise_and
//@ bounds="3 payloads, each of symbolic length 0..3 with symbolic bytes; all 6 orders (symbolic permutation)"
//@ desc="BitAnd: result bytes and length identical under every permutation, unequal lengths included"
proof! { fn c18_reduce_bitand_perm() { perm3_invariant(ReduceOp::BitAnd); reach!(); } }

//@ tier=quick timeout=900 bits=81 unwind=10 fns=warp_core::materialization::reduce_op::ReduceOp::apply,bitwise_or
//@ bounds="3 payloads of symbolic length 0..3; all 6 orders"
//@ desc="BitOr: permutation invariant, unequal lengths included"
proof! { fn c18_reduce_bitor_perm() { perm3_invariant(ReduceOp::BitOr); reach!(); } }

//@ tier=quick timeout=900 bits=81 unwind=10 fns=warp_core::materialization::reduce_op::ReduceOp::apply
//@ bounds="3 payloads of symbolic length 0..3; all 6 orders"
//@ desc="Sum: permutation invariant (u64 LE wrapping add of zero-padded payloads)"
proof! { fn c18_reduce_sum_perm() { perm3_invariant(ReduceOp::Sum); reach!(); } }

//@ tier=quick timeout=900 bits=81 unwind=10 unwindset="memcmp=5" fns=warp_core::materialization::reduce_op::ReduceOp::apply
//@ bounds="3 payloads of symbolic length 0..3; all 6 orders"
//@ desc="Max: permutation invariant (lexicographic byte order, ties are equal values)"
proof! { fn c18_reduce_max_perm() { perm3_invariant(ReduceOp::Max); reach!(); } }

//@ tier=quick timeout=900 bits=81 unwind=10 unwindset="memcmp=5" fns=warp_core::materialization::reduce_op::ReduceOp::apply
//@ bounds="3 payloads of symbolic length 0..3; all 6 orders"
//@ desc="Min: permutation invariant"
proof! { fn c18_reduce_min_perm() { perm3_invariant(ReduceOp::Min); reach!(); } }
