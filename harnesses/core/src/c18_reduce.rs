//! C18-D1: reducers declared commutative are invariant under every re-ordering (= re-keying)
//! of their inputs, including inputs of unequal length.
use crate::kani;
use warp_core::materialization::ReduceOp;

const L: usize = 3;

/// Payload of *concrete* length `n` (a loop variable after unwinding) with symbolic bytes:
/// shape concrete, content symbolic (DESIGN R1).
fn payload_n(n: usize) -> Vec<u8> {
    let buf: [u8; L] = kani::any();
    buf[..n].to_vec()
}

fn same(a: &Vec<u8>, b: &Vec<u8>) -> bool {
    if a.len() != b.len() { return false; }
    let mut i = 0;
    while i < 8 {
        if i < a.len() && a[i] != b[i] { return false; }
        i += 1;
    }
    true
}

/// Two payloads of every length pair in 0..=3 x 0..=3, both orders.
#[inline(always)]
fn swap_invariant(op: ReduceOp) {
    let mut la = 0;
    while la <= L {
        let mut lb = 0;
        while lb <= L {
            let (a, b) = (payload_n(la), payload_n(lb));
            let ab = op.apply(vec![a.clone(), b.clone()]);
            let ba = op.apply(vec![b.clone(), a.clone()]);
            assert!(same(&ab, &ba), "commutative reducer: apply([a,b]) != apply([b,a])");
            core::mem::forget((a, b, ab, ba));
            lb += 1;
        }
        la += 1;
    }
}

const PERMS: [[usize; 3]; 5] = [[0, 2, 1], [1, 0, 2], [1, 2, 0], [2, 0, 1], [2, 1, 0]];

/// Three payloads with every length triple in 0..=max_len, all six orders (concrete loops).
#[inline(always)]
fn perm3_invariant(op: ReduceOp, max_len: usize) {
    let mut la = 0;
    while la <= max_len {
        let mut lb = 0;
        while lb <= max_len {
            let mut lc = 0;
            while lc <= max_len {
                let v = [payload_n(la), payload_n(lb), payload_n(lc)];
                let base = op.apply(vec![v[0].clone(), v[1].clone(), v[2].clone()]);
                let mut k = 0;
                while k < 5 {
                    let perm = op.apply(vec![v[PERMS[k][0]].clone(), v[PERMS[k][1]].clone(), v[PERMS[k][2]].clone()]);
                    assert!(same(&base, &perm), "commutative reducer result depends on the order of three inputs");
                    core::mem::forget(perm);
                    k += 1;
                }
                core::mem::forget((v, base));
                lc += 1;
            }
            lb += 1;
        }
        la += 1;
    }
}

//@ tier=quick timeout=900 mem=10 bits=384 unwind=10 unwindset="memcmp=5" fns=warp_core::materialization::reduce_op::ReduceOp::apply,bitwise_and
//@ bounds="2 payloads, every length pair in 0..=3 x 0..=3 (concrete loop), symbolic bytes; both orders"
//@ desc="BitAnd: apply([a,b]) == apply([b,a]) in bytes and length, unequal lengths included (min-length truncation)"
proof! { fn c18_reduce_bitand_swap() { swap_invariant(ReduceOp::BitAnd); reach!(); } }

//@ tier=quick timeout=900 mem=10 bits=72 unwind=10 unwindset="memcmp=5" fns=warp_core::materialization::reduce_op::ReduceOp::apply,bitwise_and
//@ bounds="3 payloads, every length triple in {0,1}^3, symbolic bytes; all 6 orders (concrete loops)"
//@ desc="BitAnd: folding three inputs gives the same bytes in every order (associativity + commutativity, empty inputs included)"
proof! { fn c18_reduce_bitand_perm3_short() { perm3_invariant(ReduceOp::BitAnd, 1); reach!(); } }

//@ tier=thorough timeout=3600 mem=16 bits=648 unwind=10 unwindset="memcmp=5" fns=warp_core::materialization::reduce_op::ReduceOp::apply,bitwise_and
//@ bounds="3 payloads, every length triple in {0,1,2}^3, symbolic bytes; all 6 orders (concrete loops)"
//@ desc="BitAnd: result bytes and length identical under every permutation of three inputs of unequal length"
proof! { fn c18_reduce_bitand_perm() { perm3_invariant(ReduceOp::BitAnd, 2); reach!(); } }

//@ tier=quick timeout=900 mem=10 bits=384 unwind=10 unwindset="memcmp=5" fns=warp_core::materialization::reduce_op::ReduceOp::apply,bitwise_or
//@ bounds="2 payloads, every length pair in 0..=3 x 0..=3 (concrete loop), symbolic bytes; both orders"
//@ desc="BitOr: apply([a,b]) == apply([b,a]) in bytes and length, unequal lengths included (zero padding to the longer input)"
proof! { fn c18_reduce_bitor_swap() { swap_invariant(ReduceOp::BitOr); reach!(); } }

//@ tier=quick timeout=900 mem=10 bits=72 unwind=10 unwindset="memcmp=5" fns=warp_core::materialization::reduce_op::ReduceOp::apply,bitwise_or
//@ bounds="3 payloads, every length triple in {0,1}^3, symbolic bytes; all 6 orders (concrete loops)"
//@ desc="BitOr: folding three inputs gives the same bytes in every order (associativity + commutativity, empty inputs included)"
proof! { fn c18_reduce_bitor_perm3_short() { perm3_invariant(ReduceOp::BitOr, 1); reach!(); } }

//@ tier=thorough timeout=3600 mem=16 bits=648 unwind=10 unwindset="memcmp=5" fns=warp_core::materialization::reduce_op::ReduceOp::apply,bitwise_or
//@ bounds="3 payloads, every length triple in {0,1,2}^3, symbolic bytes; all 6 orders (concrete loops)"
//@ desc="BitOr: result bytes and length identical under every permutation of three inputs of unequal length"
proof! { fn c18_reduce_bitor_perm() { perm3_invariant(ReduceOp::BitOr, 2); reach!(); } }

//@ tier=quick timeout=900 mem=10 bits=384 unwind=10 unwindset="memcmp=5" fns=warp_core::materialization::reduce_op::ReduceOp::apply
//@ bounds="2 payloads, every length pair in 0..=3 x 0..=3 (concrete loop), symbolic bytes; both orders"
//@ desc="Sum: apply([a,b]) == apply([b,a]) in bytes and length, unequal lengths included (u64 LE wrapping add of zero-padded, 8-byte-truncated payloads)"
proof! { fn c18_reduce_sum_swap() { swap_invariant(ReduceOp::Sum); reach!(); } }

//@ tier=quick timeout=900 mem=10 bits=72 unwind=10 unwindset="memcmp=5" fns=warp_core::materialization::reduce_op::ReduceOp::apply
//@ bounds="3 payloads, every length triple in {0,1}^3, symbolic bytes; all 6 orders (concrete loops)"
//@ desc="Sum: folding three inputs gives the same bytes in every order (associativity + commutativity, empty inputs included)"
proof! { fn c18_reduce_sum_perm3_short() { perm3_invariant(ReduceOp::Sum, 1); reach!(); } }

//@ tier=thorough timeout=3600 mem=16 bits=648 unwind=10 unwindset="memcmp=5" fns=warp_core::materialization::reduce_op::ReduceOp::apply
//@ bounds="3 payloads, every length triple in {0,1,2}^3, symbolic bytes; all 6 orders (concrete loops)"
//@ desc="Sum: result bytes and length identical under every permutation of three inputs of unequal length"
proof! { fn c18_reduce_sum_perm() { perm3_invariant(ReduceOp::Sum, 2); reach!(); } }

//@ tier=quick timeout=900 mem=10 bits=384 unwind=10 unwindset="memcmp=5" fns=warp_core::materialization::reduce_op::ReduceOp::apply
//@ bounds="2 payloads, every length pair in 0..=3 x 0..=3 (concrete loop), symbolic bytes; both orders"
//@ desc="Max: apply([a,b]) == apply([b,a]) in bytes and length, unequal lengths included (lexicographic byte order)"
proof! { fn c18_reduce_max_swap() { swap_invariant(ReduceOp::Max); reach!(); } }

//@ tier=quick timeout=900 mem=10 bits=72 unwind=10 unwindset="memcmp=5" fns=warp_core::materialization::reduce_op::ReduceOp::apply
//@ bounds="3 payloads, every length triple in {0,1}^3, symbolic bytes; all 6 orders (concrete loops)"
//@ desc="Max: folding three inputs gives the same bytes in every order (associativity + commutativity, empty inputs included)"
proof! { fn c18_reduce_max_perm3_short() { perm3_invariant(ReduceOp::Max, 1); reach!(); } }

//@ tier=thorough timeout=3600 mem=16 bits=648 unwind=10 unwindset="memcmp=5" fns=warp_core::materialization::reduce_op::ReduceOp::apply
//@ bounds="3 payloads, every length triple in {0,1,2}^3, symbolic bytes; all 6 orders (concrete loops)"
//@ desc="Max: result bytes and length identical under every permutation of three inputs of unequal length"
proof! { fn c18_reduce_max_perm() { perm3_invariant(ReduceOp::Max, 2); reach!(); } }

//@ tier=quick timeout=900 mem=10 bits=384 unwind=10 unwindset="memcmp=5" fns=warp_core::materialization::reduce_op::ReduceOp::apply
//@ bounds="2 payloads, every length pair in 0..=3 x 0..=3 (concrete loop), symbolic bytes; both orders"
//@ desc="Min: apply([a,b]) == apply([b,a]) in bytes and length, unequal lengths included (lexicographic byte order)"
proof! { fn c18_reduce_min_swap() { swap_invariant(ReduceOp::Min); reach!(); } }

//@ tier=quick timeout=900 mem=10 bits=72 unwind=10 unwindset="memcmp=5" fns=warp_core::materialization::reduce_op::ReduceOp::apply
//@ bounds="3 payloads, every length triple in {0,1}^3, symbolic bytes; all 6 orders (concrete loops)"
//@ desc="Min: folding three inputs gives the same bytes in every order (associativity + commutativity, empty inputs included)"
proof! { fn c18_reduce_min_perm3_short() { perm3_invariant(ReduceOp::Min, 1); reach!(); } }

//@ tier=thorough timeout=3600 mem=16 bits=648 unwind=10 unwindset="memcmp=5" fns=warp_core::materialization::reduce_op::ReduceOp::apply
//@ bounds="3 payloads, every length triple in {0,1,2}^3, symbolic bytes; all 6 orders (concrete loops)"
//@ desc="Min: result bytes and length identical under every permutation of three inputs of unequal length"
proof! { fn c18_reduce_min_perm() { perm3_invariant(ReduceOp::Min, 2); reach!(); } }
