//! C14 (kernel): the write targets attributed to every operation kind, and the guard's
//! decision on one emitted operation / one read, equal the statement's table:
//! flagged iff outside the declaration, writing another instance, or an instance-level
//! operation from a non-system rule. Runs over the R6 container model.
use crate::kani;
use warp_core::verif_hooks::{guard_check_op, op_targets};
use warp_core::{
    AtomPayload, AttachmentKey, AttachmentValue, EdgeId, EdgeKey, EdgeRecord, Footprint, NodeId, NodeKey, NodeRecord,
    PortalInit, TypeId, WarpId, WarpInstance, WarpOp,
};

const W0: WarpId = WarpId([0xA0; 32]);
const N: [u8; 32] = [0x11; 32];
const E: [u8; 32] = [0x22; 32];

fn id32() -> [u8; 32] { kani::any() }

fn owner_warp(key: &AttachmentKey) -> WarpId {
    match key.owner {
        warp_core::AttachmentOwner::Node(nk) => nk.warp_id,
        warp_core::AttachmentOwner::Edge(ek) => ek.warp_id,
    }
}

/// One operation of the requested kind with every identifier fully symbolic.
fn any_op(kind: u8) -> WarpOp {
    let warp = WarpId(id32());
    let node = NodeKey { warp_id: warp, local_id: NodeId(id32()) };
    let edge = EdgeId(id32());
    let from = NodeId(id32());
    match kind {
        0 => WarpOp::UpsertNode { node, record: NodeRecord { ty: TypeId(id32()) } },
        1 => WarpOp::DeleteNode { node },
        2 => WarpOp::UpsertEdge { warp_id: warp, record: EdgeRecord { id: edge, from, to: NodeId(id32()), ty: TypeId(id32()) } },
        3 => WarpOp::DeleteEdge { warp_id: warp, from, edge_id: edge },
        4 => WarpOp::SetAttachment { key: AttachmentKey::node_alpha(node), value: None },
        5 => WarpOp::SetAttachment { key: AttachmentKey::edge_beta(EdgeKey { warp_id: warp, local_id: edge }), value: Some(AttachmentValue::Descend(WarpId(id32()))) },
        6 => WarpOp::OpenPortal { key: AttachmentKey::node_alpha(node), child_warp: WarpId(id32()), child_root: NodeId(id32()), init: PortalInit::RequireExisting },
        7 => WarpOp::UpsertWarpInstance { instance: WarpInstance { warp_id: warp, parent: None, root_node: NodeId(id32()) } },
        _ => WarpOp::DeleteWarpInstance { warp_id: warp },
    }
}

//@ tier=quick timeout=900 mem=8 bits=1536 unwind=4 unwindset="memcmp=34;c14_guard::c14_write=11" fns=warp_core::footprint_guard::op_write_targets
//@ bounds="every operation kind (concrete loop over the 9 shapes), every identifier fully symbolic (32 bytes each)"
//@ desc="attributed write targets == the locations the operation can change: node ops -> that node (DeleteNode also its attachment slot); edge ops -> the edge and the source node's adjacency (DeleteEdge also the edge's attachment slot); SetAttachment/OpenPortal -> that slot; instance-level flag exactly for OpenPortal/Upsert/DeleteWarpInstance; op_warp == the instance the op writes"
proof! {
    fn c14_write_targets_cover_changed_locations() {
        let mut kind = 0u8;
        while kind < 9 {
            let op = any_op(kind);
            let (nodes, edges, atts, inst, warp) = op_targets(&op);
            match &op {
                WarpOp::UpsertNode { node, .. } => assert!(nodes.len() == 1 && nodes[0] == node.local_id && edges.is_empty() && atts.is_empty() && !inst && warp == Some(node.warp_id)),
                WarpOp::DeleteNode { node } => assert!(nodes.len() == 1 && nodes[0] == node.local_id && edges.is_empty() && atts.len() == 1 && atts[0] == AttachmentKey::node_alpha(*node) && !inst && warp == Some(node.warp_id)),
                WarpOp::UpsertEdge { warp_id, record } => assert!(nodes.len() == 1 && nodes[0] == record.from && edges.len() == 1 && edges[0] == record.id && atts.is_empty() && !inst && warp == Some(*warp_id)),
                WarpOp::DeleteEdge { warp_id, from, edge_id } => assert!(nodes.len() == 1 && nodes[0] == *from && edges.len() == 1 && edges[0] == *edge_id && atts.len() == 1
                    && atts[0] == AttachmentKey::edge_beta(EdgeKey { warp_id: *warp_id, local_id: *edge_id }) && !inst && warp == Some(*warp_id)),
                WarpOp::SetAttachment { key, .. } => assert!(nodes.is_empty() && edges.is_empty() && atts.len() == 1 && atts[0] == *key && !inst && warp == Some(owner_warp(key))),
                WarpOp::OpenPortal { key, .. } => assert!(nodes.is_empty() && edges.is_empty() && atts.len() == 1 && atts[0] == *key && inst && warp == Some(owner_warp(key))),
                WarpOp::UpsertWarpInstance { instance } => assert!(nodes.is_empty() && edges.is_empty() && atts.is_empty() && inst && warp == Some(instance.warp_id)),
                WarpOp::DeleteWarpInstance { warp_id } => assert!(nodes.is_empty() && edges.is_empty() && atts.is_empty() && inst && warp == Some(*warp_id)),
            }
            core::mem::forget((op, nodes, edges, atts));
            kind += 1;
        }
        reach!();
    }
}

/// Declaration: writes node N, edge E and both of their attachment slots, in instance W0.
fn declared() -> Footprint {
    let mut f = Footprint::default();
    let nk = NodeKey { warp_id: W0, local_id: NodeId(N) };
    let ek = EdgeKey { warp_id: W0, local_id: EdgeId(E) };
    f.n_write.insert(nk);
    f.e_write.insert(ek);
    f.a_write.insert(AttachmentKey::node_alpha(nk));
    f.a_write.insert(AttachmentKey::edge_beta(ek));
    f
}

/// An operation of `kind` (0..=5, the non-instance kinds) whose instance, node, source node and
/// edge are each either the declared one or a different one, chosen by the solver.
/// Returns (op, inside) where `inside` is the statement's wording: same instance and every
/// location the operation changes is declared.
fn op_near_declaration(kind: u8) -> (WarpOp, bool) {
    let (w_ok, n_ok, e_ok): (bool, bool, bool) = (kani::any(), kani::any(), kani::any());
    let mut wb = W0.0; if !w_ok { wb[31] ^= kani::any::<u8>() | 1; }
    let mut nb = N; if !n_ok { nb[31] ^= kani::any::<u8>() | 1; }
    let mut eb = E; if !e_ok { eb[31] ^= kani::any::<u8>() | 1; }
    let warp = WarpId(wb);
    let node = NodeKey { warp_id: warp, local_id: NodeId(nb) };
    let edge = EdgeId(eb);
    let ty = TypeId([7; 32]);
    match kind {
        0 => (WarpOp::UpsertNode { node, record: NodeRecord { ty } }, w_ok && n_ok),
        1 => (WarpOp::DeleteNode { node }, w_ok && n_ok),
        2 => (WarpOp::UpsertEdge { warp_id: warp, record: EdgeRecord { id: edge, from: node.local_id, to: NodeId([9; 32]), ty } }, w_ok && n_ok && e_ok),
        3 => (WarpOp::DeleteEdge { warp_id: warp, from: node.local_id, edge_id: edge }, w_ok && n_ok && e_ok),
        4 => (WarpOp::SetAttachment { key: AttachmentKey::node_alpha(node), value: None }, w_ok && n_ok),
        _ => (WarpOp::SetAttachment { key: AttachmentKey::edge_beta(EdgeKey { warp_id: warp, local_id: edge }), value: None }, w_ok && e_ok),
    }
}

//@ tier=quick timeout=1500 mem=12 bits=27 unwind=7 unwindset="memcmp=34" fns=warp_core::footprint_guard::FootprintGuard::new,FootprintGuard::check_op,warp_core::footprint_guard::op_write_targets
//@ bounds="the 6 non-instance operation kinds (concrete loop); instance / node / edge each equal to the declared one or different in one symbolic byte; is_system symbolic; declaration = {node N, edge E, both attachment slots} in one instance"
//@ desc="a rewrite that stays inside its declaration is never flagged: check_op returns normally for every operation all of whose changed locations are declared"
proof! {
    fn c14_check_op_inside_declaration_passes() {
        let fp = declared();
        let is_system: bool = kani::any();
        let mut kind = 0u8;
        while kind < 6 {
            let (op, inside) = op_near_declaration(kind);
            if inside { guard_check_op(&fp, W0, is_system, &op); }
            core::mem::forget(op);
            kind += 1;
        }
        core::mem::forget(fp);
        reach!();
    }
}

//@ tier=quick timeout=1500 mem=12 bits=13 unwind=7 unwindset="memcmp=34" expect_panic="panic_any::<warp_core::FootprintViolation>" fns=warp_core::footprint_guard::FootprintGuard::new,FootprintGuard::check_op,warp_core::footprint_guard::op_write_targets
//@ bounds="one operation of a symbolic non-instance kind with at least one changed location undeclared or in another instance (one symbolic byte each); is_system symbolic"
//@ desc="undeclared write or cross-instance write is always flagged: check_op never returns normally (it panics with a FootprintViolation) when any changed location is outside the declaration"
proof! {
    fn c14_check_op_outside_declaration_panics() {
        let fp = declared();
        let is_system: bool = kani::any();
        let kind: u8 = kani::any();
        kani::assume(kind < 6);
        let (op, inside) = match kind { 0 => op_near_declaration(0), 1 => op_near_declaration(1), 2 => op_near_declaration(2), 3 => op_near_declaration(3), 4 => op_near_declaration(4), _ => op_near_declaration(5) };
        kani::assume(!inside);
        guard_check_op(&fp, W0, is_system, &op);
        assert!(false, "check_op returned normally for an operation outside the declaration");
    }
}

//@ tier=quick timeout=1500 mem=12 bits=300 unwind=7 unwindset="memcmp=34" expect_panic="panic_any::<warp_core::FootprintViolation>" fns=warp_core::footprint_guard::FootprintGuard::check_op,warp_core::footprint_guard::op_write_targets
//@ bounds="the three instance-level operation kinds (OpenPortal on a declared slot, UpsertWarpInstance, DeleteWarpInstance) in the guard's own instance, from a non-system rule"
//@ desc="a non-system rule that emits an instance-level operation is always flagged, even when the touched slot is declared"
proof! {
    fn c14_instance_op_from_user_rule_panics() {
        let fp = declared();
        let kind: u8 = kani::any();
        kani::assume(kind < 3);
        let nk = NodeKey { warp_id: W0, local_id: NodeId(N) };
        let op = match kind {
            0 => WarpOp::OpenPortal { key: AttachmentKey::node_alpha(nk), child_warp: WarpId(id32()), child_root: NodeId(id32()), init: PortalInit::RequireExisting },
            1 => WarpOp::UpsertWarpInstance { instance: WarpInstance { warp_id: W0, parent: None, root_node: NodeId(id32()) } },
            _ => WarpOp::DeleteWarpInstance { warp_id: W0 },
        };
        guard_check_op(&fp, W0, false, &op);
        assert!(false, "check_op returned normally for an instance-level operation from a non-system rule");
    }
}

//@ tier=quick timeout=1500 mem=12 bits=270 unwind=7 unwindset="memcmp=34" expect_panic="panic_any::<warp_core::FootprintViolation>" fns=warp_core::footprint_guard::FootprintGuard::check_op,warp_core::footprint_guard::op_write_targets
//@ bounds="the two instance-level operation kinds without an attachment target (UpsertWarpInstance, DeleteWarpInstance) aimed at an instance different from the guard's (one symbolic byte), from a SYSTEM rule"
//@ desc="writing into another instance is always flagged, also for instance-level operations emitted by a system rule"
proof! {
    fn c14_instance_op_into_other_instance_panics() {
        let fp = declared();
        let mut wb = W0.0;
        wb[31] ^= kani::any::<u8>() | 1;
        let op = if kani::any() {
            WarpOp::UpsertWarpInstance { instance: WarpInstance { warp_id: WarpId(wb), parent: None, root_node: NodeId(id32()) } }
        } else {
            WarpOp::DeleteWarpInstance { warp_id: WarpId(wb) }
        };
        guard_check_op(&fp, W0, true, &op);
        assert!(false, "check_op returned normally for an instance-level operation aimed at another instance");
    }
}

//@ tier=quick timeout=1500 mem=12 bits=260 unwind=7 unwindset="memcmp=34" fns=warp_core::footprint_guard::FootprintGuard::check_op,warp_core::footprint_guard::op_write_targets
//@ bounds="the three instance-level operation kinds in the guard's own instance from a SYSTEM rule (OpenPortal on a declared slot)"
//@ desc="a system rule's instance-level operation inside its own instance and declaration is never flagged"
proof! {
    fn c14_instance_op_from_system_rule_passes() {
        let fp = declared();
        let nk = NodeKey { warp_id: W0, local_id: NodeId(N) };
        guard_check_op(&fp, W0, true, &WarpOp::OpenPortal { key: AttachmentKey::node_alpha(nk), child_warp: WarpId(id32()), child_root: NodeId(id32()), init: PortalInit::RequireExisting });
        guard_check_op(&fp, W0, true, &WarpOp::UpsertWarpInstance { instance: WarpInstance { warp_id: W0, parent: None, root_node: NodeId(id32()) } });
        guard_check_op(&fp, W0, true, &WarpOp::DeleteWarpInstance { warp_id: W0 });
        core::mem::forget(fp);
        reach!();
    }
}
