//! R2: BLAKE3 is idealised under Kani. `Hasher::new/update/finalize` and `blake3::hash`
//! are stubbed by a transcript recorder: `update` appends to the current transcript,
//! `finalize` returns a digest that is a *function of the transcript* - equal transcripts
//! get the equal digest, different transcripts different digests (collision freedom), and
//! the order between digests of different transcripts is left symbolic (first byte).
//! Under it "X is bound into the id" is exactly "the preimage encoding is injective in X".
//! Natively (replay) none of this is compiled: the real BLAKE3 runs.
//!
//! Hashers are used strictly one at a time by the functions the harnesses call
//! (new -> update* -> finalize), so one current transcript suffices.
#![cfg(kani)]

pub const CAP: usize = 512;
pub const SLOTS: usize = 6;

static mut CUR: [u8; CAP] = [0; CAP];
static mut CUR_LEN: usize = 0;
static mut SEEN: [[u8; CAP]; SLOTS] = [[0; CAP]; SLOTS];
static mut SEEN_LEN: [usize; SLOTS] = [0; SLOTS];
static mut SEEN_TAG: [u8; SLOTS] = [0; SLOTS];
static mut N_SEEN: usize = 0;

pub fn hasher_new() -> blake3::Hasher {
    #[allow(static_mut_refs)]
    unsafe {
        CUR_LEN = 0;
        core::mem::zeroed()
    }
}

pub fn hasher_update<'a>(h: &'a mut blake3::Hasher, input: &[u8]) -> &'a mut blake3::Hasher {
    #[allow(static_mut_refs)]
    unsafe {
        let mut i = 0;
        while i < input.len() {
            assert!(CUR_LEN < CAP, "hash model: transcript capacity exceeded (harness bound)");
            CUR[CUR_LEN] = input[i];
            CUR_LEN += 1;
            i += 1;
        }
    }
    h
}

fn digest_of_current() -> [u8; 32] {
    #[allow(static_mut_refs)]
    unsafe {
        let mut k = 0;
        while k < N_SEEN {
            if SEEN_LEN[k] == CUR_LEN {
                let mut same = true;
                let mut i = 0;
                while i < CUR_LEN {
                    if SEEN[k][i] != CUR[i] {
                        same = false;
                    }
                    i += 1;
                }
                if same {
                    let mut d = [k as u8 + 1; 32];
                    d[0] = SEEN_TAG[k];
                    return d;
                }
            }
            k += 1;
        }
        assert!(N_SEEN < SLOTS, "hash model: too many distinct transcripts (harness bound)");
        let k = N_SEEN;
        SEEN[k] = CUR;
        SEEN_LEN[k] = CUR_LEN;
        SEEN_TAG[k] = kani::any();
        N_SEEN += 1;
        let mut d = [k as u8 + 1; 32];
        d[0] = SEEN_TAG[k];
        d
    }
}

pub fn hasher_finalize(_h: &blake3::Hasher) -> blake3::Hash {
    blake3::Hash::from_bytes(digest_of_current())
}

pub fn hash(input: &[u8]) -> blake3::Hash {
    let mut h = hasher_new();
    hasher_update(&mut h, input);
    hasher_finalize(&h)
}

/// Forgets every transcript seen so far (between independent sub-cases of one harness).
pub fn reset() {
    unsafe {
        N_SEEN = 0;
        CUR_LEN = 0;
    }
}

/// Copy of the transcript fed to the most recent hasher, with its length.
pub fn transcript() -> ([u8; CAP], usize) {
    #[allow(static_mut_refs)]
    unsafe {
        (CUR, CUR_LEN)
    }
}

/// Length of the transcript fed to the most recent hasher (for vacuity/cover checks).
pub fn last_len() -> usize {
    unsafe { CUR_LEN }
}
