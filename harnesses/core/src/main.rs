use vh_core as LIB;
include!("../../common/replay_main.rs");
