//! C04 (kernel): apply(diff(a, b), a) == b on small well-formed single-instance states.
//!
//! R7: every decision `diff_state` takes is made concrete - `b` is `a` plus a *concrete* edit
//! script; unchanged records share the very same symbolic values, changed records differ in a
//! concrete leading word and are symbolic in the rest - so the op list has a concrete shape and
//! `apply_ops_to_state` follows one arm per op. The solver quantifies over the record contents.
use crate::kani;
use warp_core::verif_hooks::{apply_ops, diff_states, state_upsert_instance};
use warp_core::{
    AtomPayload, AttachmentValue, EdgeId, EdgeRecord, GraphStore, NodeId, NodeRecord, TypeId, WarpId, WarpInstance, WarpState,
};

const W: WarpId = WarpId([0xA0; 32]);
const A: NodeId = NodeId([0x11; 32]);
const B: NodeId = NodeId([0x12; 32]);
const E: EdgeId = EdgeId([0x21; 32]);

/// Type id / payload bytes: leading 8 bytes concrete (`tag`), the rest symbolic.
fn ty(tag: u8) -> TypeId {
    let mut t: [u8; 32] = kani::any();
    let mut i = 0;
    while i < 8 { t[i] = tag; i += 1; }
    TypeId(t)
}

fn atom(tag: u8) -> AttachmentValue {
    let b: [u8; 2] = kani::any();
    AttachmentValue::Atom(AtomPayload::new(ty(tag), bytes::Bytes::copy_from_slice(&b)))
}

struct Recs { ta: TypeId, tb: TypeId, te: TypeId, x: AttachmentValue }

fn recs() -> Recs { Recs { ta: ty(1), tb: ty(2), te: ty(3), x: atom(4) } }

fn wrap(g: GraphStore) -> WarpState {
    let mut s = WarpState::new();
    state_upsert_instance(&mut s, WarpInstance { warp_id: W, root_node: A, parent: None }, g);
    s
}

/// nodes A, B; optional edge E from `from` to B with optional attachment.
fn graph(r: &Recs, ta: &TypeId, edge_from: Option<NodeId>, te: &TypeId, edge_att: Option<&AttachmentValue>, node_att: Option<&AttachmentValue>) -> GraphStore {
    let mut g = GraphStore::new(W);
    g.insert_node(A, NodeRecord { ty: *ta });
    g.insert_node(B, NodeRecord { ty: r.tb });
    if let Some(from) = edge_from {
        g.insert_edge(from, EdgeRecord { id: E, from, to: B, ty: *te });
        g.set_edge_attachment(E, edge_att.cloned());
    }
    g.set_node_attachment(A, node_att.cloned());
    g
}

fn same(x: &WarpState, y: &WarpState) -> bool {
    let (Some(gx), Some(gy)) = (x.store(&W), y.store(&W)) else { return false; };
    let mut ok = gx.node(&A) == gy.node(&A) && gx.node(&B) == gy.node(&B);
    let (mut ax, mut ay) = (gx.edges_from(&A), gy.edges_from(&A));
    ok &= ax.next() == ay.next() && ax.next().is_none() && ay.next().is_none();
    let (mut bx, mut by) = (gx.edges_from(&B), gy.edges_from(&B));
    ok &= bx.next() == by.next() && bx.next().is_none() && by.next().is_none();
    ok &= gx.has_edge(&E) == gy.has_edge(&E);
    ok &= gx.node_attachment(&A) == gy.node_attachment(&A) && gx.node_attachment(&B) == gy.node_attachment(&B);
    ok &= gx.edge_attachment(&E) == gy.edge_attachment(&E);
    ok && x.instance(&W) == y.instance(&W)
}

#[inline(always)]
fn replay_exact(a: WarpState, b: WarpState) {
    let ops = diff_states(&a, &b);
    let mut r = a.clone();
    match apply_ops(&mut r, &ops) {
        Ok(()) => assert!(same(&r, &b), "apply(diff(a,b), a) is a third state"),
        Err(_) => assert!(false, "delta between two well-formed states failed to apply"),
    }
    core::mem::forget((a, b, r, ops));
}

//@ tier=quick timeout=1800 mem=14 bits=1000 unwind=7 unwindset="memcmp=34;c04_diff::ty=10" fns=warp_core::tick_patch::diff_state,diff_nodes,apply_ops_to_state,apply_op_to_state
//@ bounds="one instance, nodes A, B; edit: node A's type changes (old/new types differ in their leading word, remaining 24 bytes symbolic each)"
//@ desc="retyping a node replays exactly"
proof_h! {
    fn c04_retype_node() {
        let r = recs();
        let t2 = ty(9);
        let a = wrap(graph(&r, &r.ta, None, &r.te, None, None));
        let b = wrap(graph(&r, &t2, None, &r.te, None, None));
        replay_exact(a, b);
        reach!();
    }
}

//@ tier=quick timeout=1800 mem=14 bits=1000 unwind=7 unwindset="memcmp=34;c04_diff::ty=10" fns=warp_core::tick_patch::diff_state,diff_edges,diff_edge_attachments,apply_ops_to_state,warp_core::graph::GraphStore::delete_edge_exact,upsert_edge_record
//@ bounds="one instance, nodes A, B; edge E: A->B with an attachment in the before-state, B->B with the same attachment in the after-state (record contents symbolic)"
//@ desc="re-parenting an edge that keeps its attachment replays exactly (the delete mini-cascade must not lose the attachment)"
proof_h! {
    fn c04_reparent_edge_keeps_attachment() {
        let r = recs();
        let a = wrap(graph(&r, &r.ta, Some(A), &r.te, Some(&r.x), None));
        let b = wrap(graph(&r, &r.ta, Some(B), &r.te, Some(&r.x), None));
        replay_exact(a, b);
        reach!();
    }
}
