// Shared by every harness crate (included with `include!`).
//
// `proof!{ #[attrs] fn name() { .. } }` declares a harness that is a `#[kani::proof]`
// under Kani and an ordinary public function natively (for counterexample replay).
#[allow(unused_macros)]
macro_rules! proof {
    ($(#[$m:meta])* fn $name:ident() $body:block) => {
        #[cfg_attr(kani, kani::proof)]
        $(#[$m])*
        #[allow(clippy::all, unused)]
        pub fn $name() $body
    };
}
// `reach!()` marks the end of a harness: the solver must be able to get here
// (vacuity witness). Natively it is a no-op.
#[allow(unused_macros)]
macro_rules! reach {
    () => {
        #[cfg(kani)]
        kani::cover!(true, "reach-end");
    };
}

// `proof_h!{..}`: as `proof!`, with BLAKE3 replaced by the transcript model (DESIGN R2) under Kani.
// Natively (replay) nothing is stubbed: the real BLAKE3 runs.
#[allow(unused_macros)]
macro_rules! proof_h {
    ($(#[$m:meta])* fn $name:ident() $body:block) => {
        #[cfg_attr(kani, kani::proof)]
        #[cfg_attr(kani, kani::stub(blake3::Hasher::new, crate::hashmodel::hasher_new))]
        #[cfg_attr(kani, kani::stub(blake3::Hasher::update, crate::hashmodel::hasher_update))]
        #[cfg_attr(kani, kani::stub(blake3::Hasher::finalize, crate::hashmodel::hasher_finalize))]
        #[cfg_attr(kani, kani::stub(blake3::hash, crate::hashmodel::hash))]
        $(#[$m])*
        #[allow(clippy::all, unused)]
        pub fn $name() $body
    };
}
