// Native stand-in for the `kani` crate, used when a harness is compiled as ordinary
// Rust (cfg(not(kani))) to replay a solver counterexample against the real build.
// `any::<T>()` consumes size_of::<T>() bytes from a byte stream, in call order, which
// is exactly the order and width in which Kani's concrete playback lists them.
#![allow(dead_code, clippy::all)]
use std::cell::RefCell;

thread_local! {
    static STREAM: RefCell<(Vec<u8>, usize)> = RefCell::new((Vec::new(), 0));
}

/// Exit code used when the byte stream violates a harness assumption (not a replay).
pub const EXIT_ASSUME: i32 = 77;

pub fn set_stream(bytes: Vec<u8>) {
    STREAM.with(|s| *s.borrow_mut() = (bytes, 0));
}

fn take(n: usize) -> Vec<u8> {
    STREAM.with(|s| {
        let mut s = s.borrow_mut();
        let mut out = Vec::with_capacity(n);
        for _ in 0..n {
            let p = s.1;
            let b = if p < s.0.len() { s.0[p] } else { 0 };
            s.1 += 1;
            out.push(b);
        }
        out
    })
}

pub trait Arbitrary: Sized {
    fn any() -> Self;
}
macro_rules! int_any {
    ($($t:ty),*) => {$(
        impl Arbitrary for $t {
            fn any() -> Self {
                let b = take(core::mem::size_of::<$t>());
                let mut a = [0u8; core::mem::size_of::<$t>()];
                a.copy_from_slice(&b);
                <$t>::from_le_bytes(a)
            }
        }
    )*};
}
int_any!(u8, u16, u32, u64, u128, usize, i8, i16, i32, i64, i128, isize);
impl Arbitrary for bool {
    fn any() -> Self {
        take(1)[0] & 1 == 1
    }
}
impl Arbitrary for f32 {
    fn any() -> Self {
        f32::from_bits(u32::any())
    }
}
impl Arbitrary for f64 {
    fn any() -> Self {
        f64::from_bits(u64::any())
    }
}
impl<T: Arbitrary, const N: usize> Arbitrary for [T; N] {
    fn any() -> Self {
        core::array::from_fn(|_| T::any())
    }
}

pub fn any<T: Arbitrary>() -> T {
    T::any()
}

pub fn assume(c: bool) {
    if !c {
        eprintln!("REPLAY: assumption not satisfied by the byte stream");
        std::process::exit(EXIT_ASSUME);
    }
}

#[macro_export]
macro_rules! kani_cover {
    ($($t:tt)*) => {};
}
