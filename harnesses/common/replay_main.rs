// Native replay entry: `replay <harness> <hex-bytes>`; exit 0 = harness ran to the end
// without a failed assertion, 101 = panic (violation reproduced), 77 = assumption not met.
fn main() {
    let a: Vec<String> = std::env::args().collect();
    if a.len() < 2 { eprintln!("usage: replay <harness>|--list [hex]"); std::process::exit(2); }
    if a[1] == "--list" { for (n, _) in LIB::REGISTRY { println!("{n}"); } return; }
    let hex = a.get(2).cloned().unwrap_or_default();
    let bytes: Vec<u8> = (0..hex.len() / 2).map(|i| u8::from_str_radix(&hex[2 * i..2 * i + 2], 16).unwrap()).collect();
    let Some((_, f)) = LIB::REGISTRY.iter().find(|(n, _)| *n == a[1]) else { eprintln!("unknown harness {}", a[1]); std::process::exit(2); };
    LIB::shim::set_stream(bytes);
    f();
    println!("REPLAY: harness {} completed without a failed assertion", a[1]);
}
