// Collects every `fn cNN_xxx()` declared inside `proof!{..}` in src/*.rs into a
// name -> fn table used by the native replay binary.
use std::{env, fs, path::Path};
fn main() {
    let mut names: Vec<(String, String)> = Vec::new();
    let src = Path::new("src");
    let mut files: Vec<_> = fs::read_dir(src).unwrap().map(|e| e.unwrap().path()).collect();
    files.sort();
    for p in files {
        println!("cargo:rerun-if-changed={}", p.display());
        if p.extension().map_or(true, |e| e != "rs") { continue; }
        let stem = p.file_stem().unwrap().to_string_lossy().to_string();
        if stem == "lib" || stem == "main" { continue; }
        let text = fs::read_to_string(&p).unwrap();
        let mut in_proof = false;
        for line in text.lines() {
            let t = line.trim_start();
            if t.starts_with("proof!") || t.starts_with("proof_h!") { in_proof = true; }
            // harness-generating macros: `some_macro!(cNN_name, ..)`
            if let Some(p) = t.find("!(c") {
                let head = &t[..p];
                let rest = &t[p + 2..];
                let b = rest.as_bytes();
                if !head.is_empty() && head.chars().all(|c| c.is_alphanumeric() || c == '_')
                    && b.len() > 4 && b[1].is_ascii_digit() && b[2].is_ascii_digit() && b[3] == b'_' {
                    if let Some(i) = rest.find(',') { names.push((stem.clone(), rest[..i].to_string())); }
                }
            }
            if in_proof {
                let t2 = if t.starts_with("proof") { t[t.find('!').map_or(0, |i| i + 1)..].trim_start_matches(|c| c == ' ' || c == '{') } else { t };
                if let Some(rest) = t2.strip_prefix("fn ") {
                    if let Some(i) = rest.find("()") {
                        // `fn $name()` inside a harness-generating macro definition is not a harness
                        if !rest.starts_with('$') { names.push((stem.clone(), rest[..i].to_string())); }
                        in_proof = false;
                    }
                }
            }
        }
    }
    let mut out = String::from("pub static REGISTRY: &[(&str, fn())] = &[\n");
    for (m, n) in &names { out.push_str(&format!("    (\"{n}\", crate::{m}::{n} as fn()),\n")); }
    out.push_str("];\n");
    fs::write(Path::new(&env::var("OUT_DIR").unwrap()).join("registry.rs"), out).unwrap();
}
