use vh_math as LIB;
include!("../../common/replay_main.rs");
