//! C19-D2: sine exactly odd, cosine exactly even, both within [-1, 1], outputs canonical.
use crate::kani;
use warp_math::scalar::{F32Scalar, Scalar};

fn canonical_bits(b: u32) -> bool {
    let e = (b >> 23) & 0xff;
    let m = b & 0x7f_ffff;
    b != 0x8000_0000 && !(e == 0 && m != 0) && (!(e == 0xff && m != 0) || b == 0x7fc0_0000)
}

#[inline(always)]
fn symmetry(x: f32) {
    let (s, c) = F32Scalar::new(x).sin_cos();
    let (s2, c2) = F32Scalar::new(-x).sin_cos();
    assert!(s2.to_f32().to_bits() == (-s).to_f32().to_bits(), "sin is not exactly odd");
    assert!(c2.to_f32().to_bits() == c.to_f32().to_bits(), "cos is not exactly even");
    assert!(s.to_f32() >= -1.0 && s.to_f32() <= 1.0, "sin out of [-1,1]");
    assert!(c.to_f32() >= -1.0 && c.to_f32() <= 1.0, "cos out of [-1,1]");
    assert!(canonical_bits(s.to_f32().to_bits()) && canonical_bits(c.to_f32().to_bits()));
}

//@ tier=quick timeout=900 bits=32 fns=warp_math::scalar::F32Scalar::sin_cos,warp_math::trig::sin_cos_f32
//@ bounds="all finite x; f32::rem_euclid replaced by its contract (exact identity for 0<=x<TAU, else some r in [0,TAU), functional); sin_qtr_interp abstracted as an arbitrary function f with range [0,1] and f(0)=+0 (both facts decided on the real code by c19_trig_interp_range)"
//@ desc="sin(-x) bits == (-sin x) bits, cos(-x) bits == cos x bits, |sin|,|cos| <= 1, outputs canonical - for every finite x, for every quarter-wave table"
proof! {
    #[cfg_attr(kani, kani::stub(f32::rem_euclid, crate::stubs::rem_euclid_contract))]
    #[cfg_attr(kani, kani::stub(warp_math::trig::sin_qtr_interp, crate::stubs::sin_qtr_interp_uf))]
    fn c19_trig_symmetry_abstract() {
        let x: f32 = kani::any();
        kani::assume(x.is_finite());
        symmetry(x);
        reach!();
    }
}

//@ tier=quick timeout=1800 bits=32 fns=warp_math::trig::sin_qtr_interp,warp_math::trig_lut::sin_qtr_sample,warp_math::scalar::F32Scalar::sin_cos
//@ bounds="0 <= x < PI/2 (quadrant 0: sin x = interp(x), cos x = interp(PI/2 - x), which together cover every interp argument in [0, PI/2]); rem_euclid by contract (identity here)"
//@ desc="the real quarter-wave interpolation (1025-entry table) stays within [0,1], indexes the table in range and never panics"
proof! {
    #[cfg_attr(kani, kani::stub(f32::rem_euclid, crate::stubs::rem_euclid_contract))]
    fn c19_trig_interp_range() {
        let x: f32 = kani::any();
        kani::assume(x >= 0.0 && x < core::f32::consts::FRAC_PI_2);
        let (s, c) = F32Scalar::new(x).sin_cos();
        assert!(s.to_f32() >= 0.0 && s.to_f32() <= 1.0);
        assert!(c.to_f32() >= 0.0 && c.to_f32() <= 1.0);
        assert!(canonical_bits(s.to_f32().to_bits()) && canonical_bits(c.to_f32().to_bits()), "sin/cos output not canonical");
        // interp(0) == +0 exactly: the one fact about the table the symmetry abstraction uses
        // (F32Scalar flushes -0 and subnormals to +0, so sin must vanish there to stay odd).
        if x == 0.0 { assert!(s.to_f32().to_bits() == 0, "sin(0) != +0"); }
        reach!();
    }
}

//@ tier=off timeout=3600 bits=32 fns=warp_math::scalar::F32Scalar::sin_cos,warp_math::trig::sin_cos_f32,warp_math::trig::sin_qtr_interp
//@ bounds="|x| < TAU; rem_euclid by contract (exact identity on this range); real interpolation and table"
//@ desc="exact odd/even symmetry, range and canonical outputs with the real interpolation code"
proof! {
    #[cfg_attr(kani, kani::stub(f32::rem_euclid, crate::stubs::rem_euclid_contract))]
    fn c19_trig_symmetry_real_small() {
        let x: f32 = kani::any();
        kani::assume(x.is_finite());
        kani::assume(x.abs() < core::f32::consts::TAU);
        symmetry(x);
        reach!();
    }
}
