//! C19-D2: sine exactly odd, cosine exactly even, both within [-1, 1], outputs canonical.
use crate::kani;
use warp_math::scalar::{F32Scalar, Scalar};

fn canonical_bits(b: u32) -> bool {
    let e = (b >> 23) & 0xff;
    let m = b & 0x7f_ffff;
    b != 0x8000_0000 && !(e == 0 && m != 0) && (!(e == 0xff && m != 0) || b == 0x7fc0_0000)
}

//@ tier=quick timeout=900 bits=32 fns=warp_math::scalar::F32Scalar::sin_cos,warp_math::trig::sin_cos_f32,warp_math::trig::sin_qtr_interp,warp_math::trig_lut::sin_qtr_sample
//@ bounds="|x| < TAU (range reduction by rem_euclid is the identity there); larger |x| in c19_trig_symmetry_reduced"
//@ desc="for every finite |x|<TAU: sin(-x) bits == (-sin x) bits, cos(-x) bits == cos x bits, |sin|,|cos| <= 1, outputs canonical"
proof! {
    fn c19_trig_symmetry_small() {
        let x: f32 = kani::any();
        kani::assume(x.is_finite());
        kani::assume(x.abs() < core::f32::consts::TAU);
        let (s, c) = F32Scalar::new(x).sin_cos();
        let (s2, c2) = F32Scalar::new(-x).sin_cos();
        assert!(s2.to_f32().to_bits() == (-s).to_f32().to_bits());
        assert!(c2.to_f32().to_bits() == c.to_f32().to_bits());
        assert!(s.to_f32() >= -1.0 && s.to_f32() <= 1.0);
        assert!(c.to_f32() >= -1.0 && c.to_f32() <= 1.0);
        assert!(canonical_bits(s.to_f32().to_bits()) && canonical_bits(c.to_f32().to_bits()));
        reach!();
    }
}
