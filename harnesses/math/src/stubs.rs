//! Environment stubs for the math harnesses (listed in evidence under `stubs`).
use crate::kani;

static mut REM_MEMO: [(u32, u32, bool); 2] = [(0, 0, false); 2];

/// Contract model of `f32::rem_euclid(x, m)` for finite `x >= 0` and `m > 0`:
/// exact identity when `x < m` (IEEE fmod is exact), otherwise *some* `r` with
/// `0 <= r < m`, the same `r` for the same `x` (a function). Over-approximates the
/// real function on that domain, so anything proved with it holds for the real one.
pub fn rem_euclid_contract(x: f32, m: f32) -> f32 {
    if x >= 0.0 && x < m {
        return x;
    }
    #[allow(static_mut_refs)]
    unsafe {
        let xb = x.to_bits();
        let mut i = 0;
        while i < 2 {
            if REM_MEMO[i].2 && REM_MEMO[i].0 == xb {
                return f32::from_bits(REM_MEMO[i].1);
            }
            i += 1;
        }
        let r: f32 = kani::any();
        kani::assume(r >= 0.0 && r < m);
        let slot = if REM_MEMO[0].2 { 1 } else { 0 };
        REM_MEMO[slot] = (xb, r.to_bits(), true);
        r
    }
}

static mut INTERP_MEMO: [(u32, u32, bool); 4] = [(0, 0, false); 4];

/// Uninterpreted-function abstraction of `trig::sin_qtr_interp`: an arbitrary
/// function of its argument with range [0, 1] and value +0 at 0. Both facts are what
/// `c19_trig_interp_range` decides on the real function.
pub fn sin_qtr_interp_uf(a: f32) -> f32 {
    if a == 0.0 {
        return 0.0;
    }
    #[allow(static_mut_refs)]
    unsafe {
        let ab = a.to_bits();
        let mut i = 0;
        let mut free = 4;
        while i < 4 {
            if INTERP_MEMO[i].2 && INTERP_MEMO[i].0 == ab {
                return f32::from_bits(INTERP_MEMO[i].1);
            }
            if !INTERP_MEMO[i].2 && free == 4 {
                free = i;
            }
            i += 1;
        }
        let r: f32 = kani::any();
        kani::assume(r >= 0.0 && r <= 1.0);
        if free < 4 {
            INTERP_MEMO[free] = (ab, r.to_bits(), true);
        }
        r
    }
}
