//! C19-D1: canonical-form closure of `F32Scalar`.
use crate::kani;
use warp_math::scalar::{F32Scalar, Scalar};

/// The statement's own wording: never -0, a subnormal, or a NaN other than 0x7fc00000.
fn canonical_bits(b: u32) -> bool {
    let e = (b >> 23) & 0xff;
    let m = b & 0x7f_ffff;
    b != 0x8000_0000 && !(e == 0 && m != 0) && (!(e == 0xff && m != 0) || b == 0x7fc0_0000)
}

//@ tier=quick timeout=120 bits=32 fns=warp_math::scalar::F32Scalar::new
//@ desc="F32Scalar::new(x) is canonical for all 2^32 bit patterns of x"
proof! {
    fn c19_new_canonical() {
        let x: f32 = kani::any();
        let b = F32Scalar::new(x).to_f32().to_bits();
        assert!(canonical_bits(b));
        reach!();
    }
}

fn two() -> (F32Scalar, F32Scalar) {
    let a: f32 = kani::any();
    let b: f32 = kani::any();
    (F32Scalar::new(a), F32Scalar::new(b))
}

//@ tier=quick timeout=300 bits=64 fns=warp_math::scalar::F32Scalar::add,F32Scalar::new
//@ desc="a+b is canonical for all 2^64 pairs of f32 bit patterns (constructors canonicalise)"
proof! {
    fn c19_add_canonical() {
        let (a, b) = two();
        assert!(canonical_bits((a + b).to_f32().to_bits()));
        reach!();
    }
}

//@ tier=quick timeout=300 bits=64 fns=warp_math::scalar::F32Scalar::sub,F32Scalar::new
//@ desc="a-b is canonical for all 2^64 pairs"
proof! {
    fn c19_sub_canonical() {
        let (a, b) = two();
        assert!(canonical_bits((a - b).to_f32().to_bits()));
        reach!();
    }
}

//@ tier=quick timeout=600 bits=64 fns=warp_math::scalar::F32Scalar::mul,F32Scalar::new
//@ desc="a*b is canonical for all 2^64 pairs"
proof! {
    fn c19_mul_canonical() {
        let (a, b) = two();
        assert!(canonical_bits((a * b).to_f32().to_bits()));
        reach!();
    }
}

//@ tier=quick timeout=900 bits=64 fns=warp_math::scalar::F32Scalar::div,F32Scalar::new
//@ desc="a/b is canonical for all 2^64 pairs"
proof! {
    fn c19_div_canonical() {
        let (a, b) = two();
        assert!(canonical_bits((a / b).to_f32().to_bits()));
        reach!();
    }
}

//@ tier=quick timeout=120 bits=32 fns=warp_math::scalar::F32Scalar::neg,F32Scalar::new
//@ desc="-a is canonical for all 2^32 inputs; -(+0) is +0"
proof! {
    fn c19_neg_canonical() {
        let a: f32 = kani::any();
        let r = (-F32Scalar::new(a)).to_f32().to_bits();
        assert!(canonical_bits(r));
        reach!();
    }
}

//@ tier=quick timeout=120 bits=64 fns=warp_math::scalar::F32Scalar::cmp,F32Scalar::eq
//@ desc="Eq/Ord consistency on canonical scalars: a==b iff same bits iff cmp==Equal; cmp antisymmetric"
proof! {
    fn c19_eq_ord_consistent() {
        let (a, b) = two();
        let same = a.to_f32().to_bits() == b.to_f32().to_bits();
        assert!((a == b) == same);
        assert!((a.cmp(&b) == core::cmp::Ordering::Equal) == same);
        assert!(a.cmp(&b) == b.cmp(&a).reverse());
        reach!();
    }
}
