//! C19-D5: the pseudo-random generator is a pure function of its seed and stays in range.
use crate::kani;
use warp_math::Prng;

//@ tier=quick timeout=300 bits=128 fns=warp_math::prng::Prng::from_seed,Prng::next_f32,Prng::next_u64
//@ bounds="every 128-bit seed; two draws"
//@ desc="next_f32 is a function of the seed (two generators from one seed agree on consecutive draws), lies in [0, 1) and is a canonical float; the all-zero seed is replaced, never kept"
proof! {
    fn c19_prng_f32_deterministic_in_unit_interval() {
        let (s0, s1): (u64, u64) = (kani::any(), kani::any());
        let (mut a, mut b) = (Prng::from_seed(s0, s1), Prng::from_seed(s0, s1));
        let (x1, y1) = (a.next_f32(), b.next_f32());
        let (x2, y2) = (a.next_f32(), b.next_f32());
        assert!(x1.to_bits() == y1.to_bits() && x2.to_bits() == y2.to_bits());
        assert!(x1 >= 0.0 && x1 < 1.0 && x2 >= 0.0 && x2 < 1.0);
        let e = (x1.to_bits() >> 23) & 0xff;
        assert!(x1.to_bits() >> 31 == 0 && (e != 0 || x1.to_bits() == 0) && e != 0xff, "next_f32 produced -0, a subnormal or a non-finite value");
        reach!();
    }
}

//@ tier=quick timeout=600 bits=192 unwind=2 fns=warp_math::prng::Prng::next_int
//@ bounds="every 128-bit seed; every (min, max) whose span max-min+1 is a power of two (the loop-free path)"
//@ desc="next_int over a power-of-two span returns a value in [min, max] without overflow for every seed and every such range, including the full i32 range"
proof! {
    fn c19_prng_next_int_pow2_span_in_range() {
        let (s0, s1): (u64, u64) = (kani::any(), kani::any());
        let (min, max): (i32, i32) = (kani::any(), kani::any());
        kani::assume(min <= max);
        let span = (max as i64 - min as i64) as u64 + 1;
        kani::assume(span.is_power_of_two());
        let mut p = Prng::from_seed(s0, s1);
        let v = p.next_int(min, max);
        assert!(v >= min && v <= max);
        reach!();
    }
}
