//! Kani harnesses over `warp-math` (property C19). See /verif/DESIGN.md section 4.
#![allow(dead_code, unused_imports, clippy::all)]
include!("../../common/macros.rs");

#[cfg(not(kani))]
#[path = "../../common/shim.rs"]
pub mod shim;
#[cfg(not(kani))]
pub(crate) use shim as kani;
#[cfg(kani)]
pub(crate) use ::kani;

pub mod c19_scalar;
pub mod c19_fixed;
pub mod c19_trig;
pub mod c19_prng;
pub mod stubs;

#[cfg(not(kani))]
include!(concat!(env!("OUT_DIR"), "/registry.rs"));
