//! C19-D3: totality and saturation of the Q32.32 conversions and the DFix64 lane.
use crate::kani;
use warp_math::fixed_q32_32;
use warp_math::scalar::{DFix64, Scalar};

//@ tier=quick timeout=300 bits=32 fns=warp_math::fixed_q32_32::from_f32
//@ desc="from_f32 is total (no panic/overflow/shift out of range) for all 2^32 inputs; NaN->0, +-inf saturate, sign preserved"
proof! {
    fn c19_fx_from_f32_total() {
        let x: f32 = kani::any();
        let r = fixed_q32_32::from_f32(x);
        if x.is_nan() { assert!(r == 0); }
        if x == f32::INFINITY { assert!(r == i64::MAX); }
        if x == f32::NEG_INFINITY { assert!(r == i64::MIN); }
        if x > 0.0 { assert!(r >= 0); }
        if x < 0.0 { assert!(r <= 0); }
        if x >= 2147483648.0 { assert!(r == i64::MAX); }
        if x <= -2147483648.0 { assert!(r == i64::MIN); }
        reach!();
    }
}

//@ tier=quick timeout=300 bits=64 fns=warp_math::fixed_q32_32::to_f32
//@ desc="to_f32 is total for all 2^64 raw values and returns a finite, non-negative-zero float with the sign of raw"
proof! {
    fn c19_fx_to_f32_total() {
        let raw: i64 = kani::any();
        let f = fixed_q32_32::to_f32(raw);
        assert!(f.is_finite());
        assert!(f.to_bits() != 0x8000_0000);
        if raw > 0 { assert!(f > 0.0); }
        if raw < 0 { assert!(f < 0.0); }
        if raw == 0 { assert!(f.to_bits() == 0); }
        reach!();
    }
}

//@ tier=quick timeout=600 bits=32 fns=warp_math::fixed_q32_32::from_f32,warp_math::fixed_q32_32::to_f32
//@ desc="to_f32(from_f32(x)) == x bit-for-bit for every normal f32 with 2^-8 <= |x| < 2^31 (exactly representable in Q32.32)"
proof! {
    fn c19_fx_roundtrip_exact() {
        let x: f32 = kani::any();
        kani::assume(x.is_finite());
        let ax = x.abs();
        kani::assume(ax >= 0.00390625 && ax < 2147483648.0);
        let r = fixed_q32_32::from_f32(x);
        assert!(fixed_q32_32::to_f32(r).to_bits() == x.to_bits());
        reach!();
    }
}

//@ tier=quick timeout=300 bits=128 fns=warp_math::scalar::DFix64::add,DFix64::sub,DFix64::neg
//@ desc="DFix64 add/sub/neg never panic or wrap: results equal the mathematically saturated value"
proof! {
    fn c19_dfix_addsub_saturate() {
        let a: i64 = kani::any();
        let b: i64 = kani::any();
        let (x, y) = (DFix64::from_raw(a), DFix64::from_raw(b));
        let s = i128::from(a) + i128::from(b);
        let want = if s > i128::from(i64::MAX) { i64::MAX } else if s < i128::from(i64::MIN) { i64::MIN } else { s as i64 };
        assert!((x + y).raw() == want);
        let d = i128::from(a) - i128::from(b);
        let want = if d > i128::from(i64::MAX) { i64::MAX } else if d < i128::from(i64::MIN) { i64::MIN } else { d as i64 };
        assert!((x - y).raw() == want);
        let n = (-x).raw();
        assert!(if a == i64::MIN { n == i64::MAX } else { n == -a });
        reach!();
    }
}

//@ tier=quick timeout=900 bits=128 fns=warp_math::scalar::DFix64::mul
//@ bounds="|a|,|b| < 2^20 raw units for the sign obligation; the no-panic obligation is decided in c19_dfix_mul_nopanic at full width"
//@ desc="DFix64 mul is sign-correct, zero-absorbing and x*ONE == x"
proof! {
    fn c19_dfix_mul_sign() {
        let a: i64 = kani::any();
        let b: i64 = kani::any();
        let (x, y) = (DFix64::from_raw(a), DFix64::from_raw(b));
        assert!((x * DFix64::ONE).raw() == a);
        assert!((DFix64::ONE * y).raw() == b);
        kani::assume(a > -(1 << 20) && a < (1 << 20) && b > -(1 << 20) && b < (1 << 20));
        let p = (x * y).raw();
        if a == 0 || b == 0 { assert!(p == 0); }
        if (a > 0 && b > 0) || (a < 0 && b < 0) { assert!(p >= 0); }
        if (a > 0 && b < 0) || (a < 0 && b > 0) { assert!(p <= 0); }
        reach!();
    }
}

//@ tier=quick timeout=900 bits=48 fns=warp_math::scalar::DFix64::div
//@ bounds="|a| < 2^24 and |b| < 2^24 raw units, or b == 0 with any a (128-bit division does not bit-blast at full width)"
//@ desc="DFix64 div is total: no panic, division by zero follows the documented policy (0/0=0, x/0 saturates by sign), sign-correct"
proof! {
    fn c19_dfix_div_total() {
        let a: i64 = kani::any();
        let b: i64 = kani::any();
        kani::assume(b == 0 || (a > -(1 << 24) && a < (1 << 24) && b > -(1 << 24) && b < (1 << 24)));
        let q = (DFix64::from_raw(a) / DFix64::from_raw(b)).raw();
        if b == 0 {
            assert!(q == if a == 0 { 0 } else if a < 0 { i64::MIN } else { i64::MAX });
        } else {
            if a == 0 { assert!(q == 0); }
            if (a > 0 && b > 0) || (a < 0 && b < 0) { assert!(q >= 0); }
            if (a > 0 && b < 0) || (a < 0 && b > 0) { assert!(q <= 0); }
            if b == (1i64 << 32) >> 16 { /* unreachable under the bound; kept trivial */ }
        }
        reach!();
    }
}

//@ tier=quick timeout=600 bits=128 fns=warp_math::scalar::DFix64::mul
//@ desc="DFix64 mul never panics, overflows or shifts out of range for all 2^128 pairs (Kani's checks are the assertion)"
proof! {
    fn c19_dfix_mul_nopanic() {
        let a: i64 = kani::any();
        let b: i64 = kani::any();
        let _ = (DFix64::from_raw(a) * DFix64::from_raw(b)).raw();
        reach!();
    }
}
