//! C12 / C13 for the EINT v1 intent envelope (`echo_wasm_abi::{pack_intent_v1, unpack_intent_v1}`).
use crate::kani;
use echo_wasm_abi::{pack_intent_v1, unpack_intent_v1, EnvelopeError};

//@ also=C13 tier=quick timeout=600 mem=6 bits=136 unwind=18 unwindset="memcmp=18" fns=echo_wasm_abi::unpack_intent_v1,echo_wasm_abi::pack_intent_v1,echo_wasm_abi::pack_envelope_v1_raw
//@ bounds="every byte string of length 0..16 (header 12 + up to 4 payload bytes)"
//@ desc="EINT L1: an accepted envelope has magic EINT and an exact declared length, and re-packs to exactly the same bytes (unless its op id is protocol-reserved, which pack refuses); no input panics"
proof! {
    fn c12_eint_accepted_is_canonical() {
        let buf: [u8; 16] = kani::any();
        let n: usize = kani::any();
        kani::assume(n <= 16);
        match unpack_intent_v1(&buf[..n]) {
            Ok((op, vars)) => {
                assert!(n >= 12 && vars.len() == n - 12);
                assert!(buf[0] == b'E' && buf[1] == b'I' && buf[2] == b'N' && buf[3] == b'T');
                assert!(op == u32::from_le_bytes([buf[4], buf[5], buf[6], buf[7]]));
                assert!(u32::from_le_bytes([buf[8], buf[9], buf[10], buf[11]]) as usize == n - 12);
                match pack_intent_v1(op, vars) {
                    Ok(out) => {
                        assert!(out.len() == n);
                        let mut i = 0;
                        while i < 16 { if i < n { assert!(out[i] == buf[i], "accepted envelope re-packs to different bytes"); } i += 1; }
                        core::mem::forget(out);
                    }
                    Err(e) => assert!(e == EnvelopeError::ReservedOpId),
                }
            }
            Err(e) => assert!(e == EnvelopeError::TooShort || e == EnvelopeError::InvalidMagic || e == EnvelopeError::LengthMismatch),
        }
        reach!();
    }
}

//@ also=C13 tier=quick timeout=600 mem=6 bits=72 unwind=18 unwindset="memcmp=18" fns=echo_wasm_abi::pack_intent_v1,echo_wasm_abi::unpack_intent_v1
//@ bounds="every op id (u32), payload of symbolic length 0..4 with symbolic bytes"
//@ desc="EINT L2: unpack(pack(op, vars)) == (op, vars) whenever pack succeeds; pack fails only for reserved op ids; encoding is 12 + len bytes"
proof! {
    fn c12_eint_roundtrip() {
        let op: u32 = kani::any();
        let vars: [u8; 4] = kani::any();
        let n: usize = kani::any();
        kani::assume(n <= 4);
        match pack_intent_v1(op, &vars[..n]) {
            Ok(out) => {
                assert!(out.len() == 12 + n);
                match unpack_intent_v1(&out) {
                    Ok((op2, v2)) => {
                        assert!(op2 == op && v2.len() == n);
                        let mut i = 0;
                        while i < 4 { if i < n { assert!(v2[i] == vars[i]); } i += 1; }
                    }
                    Err(_) => assert!(false, "packed envelope does not unpack"),
                }
                core::mem::forget(out);
            }
            Err(e) => assert!(e == EnvelopeError::ReservedOpId),
        }
        reach!();
    }
}
