//! Kani harnesses over the byte codecs (properties C12, C13). See /verif/DESIGN.md section 4.
#![allow(dead_code, unused_imports, clippy::all)]
include!("../../common/macros.rs");

#[cfg(not(kani))]
#[path = "../../common/shim.rs"]
pub mod shim;
#[cfg(not(kani))]
pub(crate) use shim as kani;
#[cfg(kani)]
pub(crate) use ::kani;

pub mod stubs;
pub mod c12_abi;
pub mod c12_le;
pub mod c12_eint;
pub mod c12_edict;

#[cfg(not(kani))]
include!(concat!(env!("OUT_DIR"), "/registry.rs"));
