//! R3: formatting is cut. `format!` only runs on error paths that already return `Err`;
//! its output is never inspected by a harness.
pub fn fmt_format(_args: core::fmt::Arguments<'_>) -> String {
    String::new()
}
