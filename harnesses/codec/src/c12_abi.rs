//! C12-L1 / C13 for the ABI canonical CBOR value codec (`echo_wasm_abi::canonical`).
//!
//! Same scheme as `c12_edict`: the head byte of each item is concrete inside each unrolled
//! loop iteration, the argument/payload bytes and the total length are symbolic; the union of
//! the loops covers every head byte.
use crate::kani;
use echo_wasm_abi::{decode_value, encode_value};

pub const N: usize = 10;

/// accepted => canonical: any accepted byte string re-encodes to exactly itself.
/// Kani's own checks (panic, bounds, overflow, unwinding) over the same run are C13.
#[inline(never)]
fn l1(buf: &[u8; N], len: usize) {
    match decode_value(&buf[..len]) {
        Ok(v) => {
            match encode_value(&v) {
                Ok(out) => {
                    assert!(out.len() == len, "ABI CBOR: accepted input re-encodes to a different length");
                    let mut flat = [0u8; N];
                    flat[..len].copy_from_slice(&out);
                    let mut i = 0;
                    while i < N {
                        if i < len { assert!(flat[i] == buf[i], "ABI CBOR: accepted input re-encodes to different bytes"); }
                        i += 1;
                    }
                    core::mem::forget(out);
                }
                Err(e) => { core::mem::forget(e); assert!(false, "ABI CBOR: accepted input does not re-encode"); }
            }
            core::mem::forget(v);
        }
        Err(e) => core::mem::forget(e),
    }
}

#[inline(always)]
fn heads(lo: u16, hi: u16, len_lo: usize, len_hi: usize) {
    let mut buf: [u8; N] = kani::any();
    let len: usize = kani::any();
    kani::assume(len >= len_lo && len <= len_hi);
    let mut h = lo;
    while h <= hi {
        buf[0] = h as u8;
        l1(&buf, len);
        h += 1;
    }
}

//@ also=C13 tier=quick timeout=1500 mem=10 bits=80 unwind=12 unwindset="c12_abi::heads=34;memcmp=12" fns=echo_wasm_abi::canonical::decode_value,dec_value,read_len,read_uint,echo_wasm_abi::canonical::encode_value,enc_int,write_major
//@ bounds="every byte string of length 1..=10 whose first byte is a major-0 head (0x00..=0x1f)"
//@ desc="ABI unsigned ints: non-minimal widths, reserved and indefinite info rejected; accepted => re-encodes to itself; nothing panics"
proof! {
    #[cfg_attr(kani, kani::stub(alloc::fmt::format, crate::stubs::fmt_format))]
    fn c12_abi_uint_heads() { heads(0x00, 0x1f, 1, N); reach!(); }
}

//@ also=C13 tier=quick timeout=1500 mem=10 bits=80 unwind=12 unwindset="c12_abi::heads=34;memcmp=12" fns=echo_wasm_abi::canonical::decode_value,dec_value,read_len,enc_int,write_major
//@ bounds="every byte string of length 1..=10 whose first byte is a major-1 head (0x20..=0x3f)"
//@ desc="ABI negative ints: accepted => canonical; magnitudes beyond i64 are rejected with a typed error, not wrapped"
proof! {
    #[cfg_attr(kani, kani::stub(alloc::fmt::format, crate::stubs::fmt_format))]
    fn c12_abi_nint_heads() { heads(0x20, 0x3f, 1, N); reach!(); }
}

//@ also=C13 tier=quick timeout=1500 mem=10 bits=80 unwind=12 unwindset="c12_abi::heads=34;memcmp=12" fns=echo_wasm_abi::canonical::decode_value,dec_value
//@ bounds="every byte string of length 1..=10 whose first byte is a tag head (0xc0..=0xdf) or a simple-value head other than the three float heads (0xe0..=0xf8, 0xfc..=0xff)"
//@ desc="ABI tags and unsupported simple values are rejected; false/true/null accepted only as exactly one byte"
proof! {
    #[cfg_attr(kani, kani::stub(alloc::fmt::format, crate::stubs::fmt_format))]
    fn c12_abi_tag_simple_heads() {
        heads(0xc0, 0xf8, 1, N);
        heads(0xfc, 0xff, 1, N);
        reach!();
    }
}

//@ also=C13 tier=quick timeout=1800 mem=12 bits=24 unwind=12 unwindset="memcmp=12" fns=echo_wasm_abi::canonical::dec_value,read_f,is_exact_int,enc_float,write_half,half::f16::to_f64,half::f16::from_f64
//@ bounds="every byte string of length 1..=4 with head 0xf9 (all 2^16 half-precision patterns, short and trailing input)"
//@ desc="ABI f16: accepted => re-encodes to exactly the same 3 bytes (integral values must have been ints; NaN has one encoding)"
proof! {
    #[cfg_attr(kani, kani::stub(alloc::fmt::format, crate::stubs::fmt_format))]
    fn c12_abi_f16() { heads(0xf9, 0xf9, 1, 4); reach!(); }
}

//@ also=C13 tier=thorough timeout=3600 mem=14 bits=40 unwind=12 unwindset="memcmp=12" fns=echo_wasm_abi::canonical::dec_value,read_f,is_exact_int,can_fit_f16,enc_float,write_f32
//@ bounds="every byte string of length 1..=6 with head 0xfa (all 2^32 single-precision patterns)"
//@ desc="ABI f32: accepted => canonical (values that fit f16 or are integral are rejected, the rest re-encode as the same 5 bytes)"
proof! {
    #[cfg_attr(kani, kani::stub(alloc::fmt::format, crate::stubs::fmt_format))]
    fn c12_abi_f32() { heads(0xfa, 0xfa, 1, 6); reach!(); }
}

//@ also=C13 tier=quick timeout=1800 mem=12 bits=80 unwind=12 unwindset="c12_abi::heads=34;memcmp=12;from_utf8=12;run_utf8_validation=12" fns=echo_wasm_abi::canonical::dec_value,read_len,enc_bytes
//@ bounds="every byte string of length 1..=10 whose first byte is a byte-string head (0x40..=0x5f); payload symbolic"
//@ desc="ABI byte strings: declared length checked against the remaining input; accepted => canonical"
proof! {
    #[cfg_attr(kani, kani::stub(alloc::fmt::format, crate::stubs::fmt_format))]
    fn c12_abi_bytes_heads() { heads(0x40, 0x5f, 1, N); reach!(); }
}

/// Runs `l1` on `[h0, args.., ]` where the total length is the *concrete* `len`.
#[inline(always)]
fn fixed(h0: u8, len: usize) {
    let mut buf: [u8; N] = kani::any();
    buf[0] = h0;
    l1(&buf, len);
}

//@ also=C12 tier=quick timeout=1800 mem=12 bits=72 unwind=12 unwindset="memcmp=12" fns=echo_wasm_abi::canonical::dec_value,read_len,read_uint
//@ bounds="array and map heads with an explicit 1/2/4/8-byte length (0x98..=0x9b, 0xb8..=0xbb) followed by exactly the length bytes and no elements; all values of the length bytes"
//@ desc="C13: a declared element count far beyond the input is answered with a typed error - no capacity-overflow panic and no allocation sized by the declared count"
proof! {
    #[cfg_attr(kani, kani::stub(alloc::fmt::format, crate::stubs::fmt_format))]
    fn c13_abi_declared_count_beyond_input() {
        fixed(0x98, 2); fixed(0x99, 3); fixed(0x9a, 5); fixed(0x9b, 9);
        fixed(0xb8, 2); fixed(0xb9, 3); fixed(0xba, 5); fixed(0xbb, 9);
        reach!();
    }
}

const ELEM_HEADS: [u8; 20] = [0x00, 0x17, 0x18, 0x19, 0x1b, 0x1c, 0x1f, 0x20, 0x38, 0x3b, 0x40, 0x41, 0x60, 0x61, 0x80, 0xa0, 0xc0, 0xf4, 0xf6, 0xf7];

//@ also=C13 tier=quick timeout=2400 mem=14 bits=64 unwind=22 unwindset="memcmp=12;from_utf8=12;run_utf8_validation=12" fns=echo_wasm_abi::canonical::dec_value,enc_value,enc_len
//@ bounds="one-element arrays (head 0x81) whose element head ranges over 20 representative heads of every major type (concrete loop); element argument/payload bytes symbolic; total length 2..=10 symbolic"
//@ desc="ABI arrays: accepted => canonical, element errors propagate, trailing bytes rejected"
proof! {
    #[cfg_attr(kani, kani::stub(alloc::fmt::format, crate::stubs::fmt_format))]
    fn c12_abi_array_of_one() {
        let mut buf: [u8; N] = kani::any();
        let len: usize = kani::any();
        kani::assume(len >= 2 && len <= N);
        buf[0] = 0x81;
        let mut k = 0;
        while k < 20 {
            buf[1] = ELEM_HEADS[k];
            l1(&buf, len);
            k += 1;
        }
        reach!();
    }
}

//@ also=C13 tier=quick timeout=2400 mem=14 bits=24 unwind=8 unwindset="memcmp=12;insertion_sort=4;insert_tail=4" fns=echo_wasm_abi::canonical::dec_value,enc_value
//@ bounds="two-entry maps a2 18 x f6 18 y f6 with symbolic key bytes x, y (all 2^16 pairs), and the same with a trailing byte"
//@ desc="ABI maps: accepted => keys strictly ascending by encoded bytes (duplicates and descending order rejected, not normalised) and re-encodes to itself"
proof! {
    #[cfg_attr(kani, kani::stub(alloc::fmt::format, crate::stubs::fmt_format))]
    fn c12_abi_map_key_order() {
        let (x, y): (u8, u8) = (kani::any(), kani::any());
        let buf: [u8; N] = [0xa2, 0x18, x, 0xf6, 0x18, y, 0xf6, kani::any(), 0, 0];
        let len: usize = if kani::any() { 7 } else { 8 };
        if let Ok(v) = decode_value(&buf[..len]) {
            assert!(len == 7 && x >= 24 && y >= 24 && x < y, "ABI CBOR: map with unsorted, duplicate or non-minimal keys accepted");
            core::mem::forget(v);
        }
        l1(&buf, 7);
        reach!();
    }
}
