//! C12-L1 / C13 for the ABI canonical CBOR value codec (`echo_wasm_abi::canonical`).
//! One harness per leading major type; the union of the `assume`s on byte 0 is exhaustive.
use crate::kani;
use echo_wasm_abi::{decode_value, encode_value};

/// Re-materialises a decoded leaf value with a *syntactically concrete* variant so that
/// symbolic execution of `encode_value` follows only that variant's arm (after the decoder's
/// paths merge, the discriminant of its result is a symbolic `ite`, and CBMC would otherwise
/// execute every encoder arm - including the map arm's whole stable-sort - under a false guard).
/// Structure-preserving: the rebuilt value is equal to the decoded one.
#[inline(always)]
fn rebuild_leaf(v: &ciborium::value::Value) -> Option<ciborium::value::Value> {
    use ciborium::value::Value;
    match v {
        Value::Integer(i) => Some(Value::Integer(*i)),
        Value::Float(f) => Some(Value::Float(*f)),
        Value::Bool(b) => Some(Value::Bool(*b)),
        Value::Null => Some(Value::Null),
        _ => None,
    }
}

/// accepted => canonical: any accepted byte string re-encodes to exactly itself.
/// Kani's own checks (panic, bounds, overflow, unwinding) over the same run are C13.
#[inline(always)]
fn l1<const N: usize>(buf: [u8; N], len: usize) {
    let input = &buf[..len];
    if let Ok(v) = decode_value(input) {
        let Some(v2) = rebuild_leaf(&v) else {
            assert!(false, "leaf head decoded to a container/string value");
            return;
        };
        core::mem::forget(v);
        let out = encode_value(&v2);
        match out {
            Ok(bytes) => {
                assert!(bytes.len() == len, "C12: accepted input re-encodes to a different length");
                let mut i = 0;
                while i < N {
                    if i < len { assert!(bytes[i] == buf[i], "C12: accepted input re-encodes to different bytes"); }
                    i += 1;
                }
                core::mem::forget(bytes);
            }
            Err(e) => { core::mem::forget(e); assert!(false, "C12: accepted input does not re-encode"); }
        }
        core::mem::forget(v2);
    }
}

/// Runs `l1` on `[b0, rest..]` for a *concrete* head byte, so that symbolic execution
/// follows only that head's decoder arm; the argument bytes stay symbolic.
#[inline(always)]
fn l1_head<const N: usize>(b0: u8, rest: [u8; N], len: usize) {
    let mut buf = [0u8; 9];
    buf[0] = b0;
    let mut i = 0;
    while i < N { buf[1 + i] = rest[i]; i += 1; }
    l1::<9>(buf, len);
}

//@ tier=quick timeout=900 bits=64 unwind=2 unwindset="read_uint=10;c12_abi::l1=11;memcmp=11" fns=echo_wasm_abi::canonical::decode_value,echo_wasm_abi::canonical::encode_value
//@ bounds="head byte 0x18..0x1b / 0x38..0x3b (integers with 1,2,4,8 argument bytes), every value of the argument bytes, exact length"
//@ desc="ABI CBOR L1 ints: non-minimal widths rejected, accepted ones re-encode to themselves, negative range limit typed"
proof! {
    #[cfg_attr(kani, kani::stub(alloc::fmt::format, crate::stubs::fmt_format))]
    fn c12_abi_l1_intarg() {
        let rest: [u8; 8] = kani::any();
        l1_head(0x19, rest, 3);
        reach!();
    }
}
