//! C12-L1 / C13 for the ABI canonical CBOR value codec (`echo_wasm_abi::canonical`).
//!
//! Same scheme as `c12_edict`: every case fixes the head byte and the total length concretely,
//! the argument/payload bytes are symbolic.
use crate::kani;
use echo_wasm_abi::{decode_value, encode_value};

pub const N: usize = 10;

/// Re-encodes `v` and compares with the input. Always called with a value whose variant is
/// *syntactically concrete* at the call site (see `l1`), so the encoder follows one arm.
#[inline(always)]
fn reencodes_to(v: ciborium::value::Value, buf: &[u8; N], len: usize) {
    match encode_value(&v) {
        Ok(out) => {
            assert!(out.len() == len, "ABI CBOR: accepted input re-encodes to a different length");
            let mut flat = [0u8; N];
            flat[..len].copy_from_slice(&out);
            let mut i = 0;
            while i < N {
                if i < len { assert!(flat[i] == buf[i], "ABI CBOR: accepted input re-encodes to different bytes"); }
                i += 1;
            }
            core::mem::forget(out);
        }
        Err(e) => { core::mem::forget(e); assert!(false, "ABI CBOR: accepted input does not re-encode"); }
    }
    core::mem::forget(v);
}

/// accepted => canonical: any accepted byte string re-encodes to exactly itself.
/// Kani's own checks (panic, bounds, overflow, unwinding) over the same run are C13.
///
/// After the decoder's early-return paths merge, the discriminant of its result is a symbolic
/// `ite` over an uninitialised payload; handing that value to the encoder makes CBMC execute
/// every encoder arm (incl. the map arm's sort over a nondeterministic vector). Each leaf
/// variant is therefore re-materialised *inside its own match arm* and encoded there.
/// Containers are handled by the dedicated harnesses below, not here.
#[inline(never)]
fn l1(buf: &[u8; N], len: usize) {
    use ciborium::value::Value;
    match decode_value(&buf[..len]) {
        Ok(v) => {
            match &v {
                Value::Integer(i) => reencodes_to(Value::Integer(*i), buf, len),
                Value::Bool(b) => reencodes_to(Value::Bool(*b), buf, len),
                Value::Null => reencodes_to(Value::Null, buf, len),
                Value::Bytes(b) => reencodes_to(Value::Bytes(b.clone()), buf, len),
                _ => assert!(false, "ABI CBOR: leaf head decoded to a float/text/container value"),
            }
            core::mem::forget(v);
        }
        Err(e) => core::mem::forget(e),
    }
}

/// Same for the float heads.
#[inline(never)]
fn l1_float(buf: &[u8; N], len: usize) {
    use ciborium::value::Value;
    match decode_value(&buf[..len]) {
        Ok(v) => {
            match &v {
                Value::Float(f) => reencodes_to(Value::Float(*f), buf, len),
                _ => assert!(false, "ABI CBOR: float head decoded to a non-float value"),
            }
            core::mem::forget(v);
        }
        Err(e) => core::mem::forget(e),
    }
}

/// One-element arrays whose element is an integer, null or an empty array.
#[inline(never)]
fn l1_array1(buf: &[u8; N], len: usize) {
    use ciborium::value::Value;
    match decode_value(&buf[..len]) {
        Ok(v) => {
            match &v {
                Value::Array(items) => {
                    assert!(items.len() == 1, "ABI CBOR: 0x81 decoded to an array that is not one element long");
                    match &items[0] {
                        Value::Integer(i) => reencodes_to(Value::Array(vec![Value::Integer(*i)]), buf, len),
                        Value::Null => reencodes_to(Value::Array(vec![Value::Null]), buf, len),
                        Value::Array(inner) => { assert!(inner.is_empty()); reencodes_to(Value::Array(vec![Value::Array(Vec::new())]), buf, len) }
                        _ => assert!(false, "ABI CBOR: unexpected element kind"),
                    }
                }
                _ => assert!(false, "ABI CBOR: array head decoded to a non-array value"),
            }
            core::mem::forget(v);
        }
        Err(e) => core::mem::forget(e),
    }
}

/// One case: concrete head byte and concrete total length, every other byte symbolic.
#[inline(always)]
fn l1_at(head: u8, len: usize) {
    let mut buf: [u8; N] = kani::any();
    buf[0] = head;
    l1(&buf, len);
}

//@ also=C13 tier=off timeout=1800 mem=10 bits=72 unwind=12 unwindset="memcmp=12;from_utf8=12;run_utf8_validation=12" fns=echo_wasm_abi::canonical::decode_value,dec_value,read_len,read_uint,echo_wasm_abi::canonical::encode_value,enc_int,write_major
//@ bounds="unsigned immediates 0x00 and 0x17: exact and with one trailing byte"
//@ desc="ABI CBOR: immediate unsigned ints are one byte; a trailing byte is rejected"
proof! {
    #[cfg_attr(kani, kani::stub(alloc::fmt::format, crate::stubs::fmt_format))]
    fn c12_abi_uint_immediate() { l1_at(0x00, 1); l1_at(0x00, 2); l1_at(0x17, 1); l1_at(0x17, 2); reach!(); }
}

//@ also=C13 tier=off timeout=1800 mem=10 bits=72 unwind=12 unwindset="memcmp=12;from_utf8=12;run_utf8_validation=12" fns=echo_wasm_abi::canonical::decode_value,dec_value,read_len,read_uint,echo_wasm_abi::canonical::encode_value,enc_int,write_major
//@ bounds="head 0x18 with 0, 1 and 2 following bytes (all values)"
//@ desc="ABI CBOR: 1-byte argument: values <= 23 are non-minimal and rejected, short and trailing input rejected, the rest re-encode to themselves"
proof! {
    #[cfg_attr(kani, kani::stub(alloc::fmt::format, crate::stubs::fmt_format))]
    fn c12_abi_uint_w1() { l1_at(0x18, 1); l1_at(0x18, 2); l1_at(0x18, 3); reach!(); }
}

//@ also=C13 tier=off timeout=1800 mem=10 bits=72 unwind=12 unwindset="memcmp=12;from_utf8=12;run_utf8_validation=12" fns=echo_wasm_abi::canonical::decode_value,dec_value,read_len,read_uint,echo_wasm_abi::canonical::encode_value,enc_int,write_major
//@ bounds="head 0x19 with 1, 2 and 3 following bytes (all values)"
//@ desc="ABI CBOR: 2-byte argument: values <= 0xff rejected as non-minimal; accepted => canonical"
proof! {
    #[cfg_attr(kani, kani::stub(alloc::fmt::format, crate::stubs::fmt_format))]
    fn c12_abi_uint_w2() { l1_at(0x19, 2); l1_at(0x19, 3); l1_at(0x19, 4); reach!(); }
}

//@ also=C13 tier=off timeout=1800 mem=10 bits=72 unwind=12 unwindset="memcmp=12;from_utf8=12;run_utf8_validation=12" fns=echo_wasm_abi::canonical::decode_value,dec_value,read_len,read_uint,echo_wasm_abi::canonical::encode_value,enc_int,write_major
//@ bounds="head 0x1a with 3, 4 and 5 following bytes (all values)"
//@ desc="ABI CBOR: 4-byte argument: values <= 0xffff rejected; accepted => canonical"
proof! {
    #[cfg_attr(kani, kani::stub(alloc::fmt::format, crate::stubs::fmt_format))]
    fn c12_abi_uint_w4() { l1_at(0x1a, 4); l1_at(0x1a, 5); l1_at(0x1a, 6); reach!(); }
}

//@ also=C13 tier=off timeout=1800 mem=10 bits=72 unwind=12 unwindset="memcmp=12;from_utf8=12;run_utf8_validation=12" fns=echo_wasm_abi::canonical::decode_value,dec_value,read_len,read_uint,echo_wasm_abi::canonical::encode_value,enc_int,write_major
//@ bounds="head 0x1b with 7, 8 and 9 following bytes (all values)"
//@ desc="ABI CBOR: 8-byte argument: values <= 0xffffffff rejected; accepted => canonical"
proof! {
    #[cfg_attr(kani, kani::stub(alloc::fmt::format, crate::stubs::fmt_format))]
    fn c12_abi_uint_w8() { l1_at(0x1b, 8); l1_at(0x1b, 9); l1_at(0x1b, 10); reach!(); }
}

//@ also=C13 tier=off timeout=1800 mem=10 bits=72 unwind=12 unwindset="memcmp=12;from_utf8=12;run_utf8_validation=12" fns=echo_wasm_abi::canonical::decode_value,dec_value,read_len,read_uint,echo_wasm_abi::canonical::encode_value,enc_int,write_major
//@ bounds="heads 0x1c..0x1f (reserved / indefinite additional info) with one following byte"
//@ desc="ABI CBOR: reserved and indefinite-length heads are rejected"
proof! {
    #[cfg_attr(kani, kani::stub(alloc::fmt::format, crate::stubs::fmt_format))]
    fn c12_abi_uint_reserved() { l1_at(0x1c, 2); l1_at(0x1d, 2); l1_at(0x1e, 2); l1_at(0x1f, 2); reach!(); }
}

//@ also=C13 tier=off timeout=1800 mem=10 bits=72 unwind=12 unwindset="memcmp=12;from_utf8=12;run_utf8_validation=12" fns=echo_wasm_abi::canonical::decode_value,dec_value,read_len,read_uint,echo_wasm_abi::canonical::encode_value,enc_int,write_major
//@ bounds="negative immediates and head 0x38 (all values of the argument byte)"
//@ desc="ABI CBOR: negative ints: immediates one byte, 1-byte argument minimality, trailing byte rejected"
proof! {
    #[cfg_attr(kani, kani::stub(alloc::fmt::format, crate::stubs::fmt_format))]
    fn c12_abi_nint_small() { l1_at(0x20, 1); l1_at(0x37, 1); l1_at(0x38, 2); l1_at(0x38, 3); reach!(); }
}

//@ also=C13 tier=off timeout=1800 mem=10 bits=72 unwind=12 unwindset="memcmp=12;from_utf8=12;run_utf8_validation=12" fns=echo_wasm_abi::canonical::decode_value,dec_value,read_len,read_uint,echo_wasm_abi::canonical::encode_value,enc_int,write_major
//@ bounds="head 0x3b with 8 and 9 following bytes (all values)"
//@ desc="ABI CBOR: negative 8-byte argument: -1 - n computed without overflow; out-of-range magnitudes answered with a typed error; accepted => canonical"
proof! {
    #[cfg_attr(kani, kani::stub(alloc::fmt::format, crate::stubs::fmt_format))]
    fn c12_abi_nint_w8() { l1_at(0x3b, 9); l1_at(0x3b, 10); reach!(); }
}

//@ also=C13 tier=off timeout=1800 mem=10 bits=72 unwind=12 unwindset="memcmp=12;from_utf8=12;run_utf8_validation=12" fns=echo_wasm_abi::canonical::decode_value,dec_value,read_len,read_uint,echo_wasm_abi::canonical::encode_value,enc_int,write_major
//@ bounds="simple-value heads false/true/null (exact, null also with a trailing byte), undefined, 1-byte simple, simple 0 and break"
//@ desc="ABI CBOR: false/true/null accepted as exactly one byte and re-encode to themselves; every other simple value is rejected"
proof! {
    #[cfg_attr(kani, kani::stub(alloc::fmt::format, crate::stubs::fmt_format))]
    fn c12_abi_simple() { l1_at(0xf4, 1); l1_at(0xf5, 1); l1_at(0xf6, 1); l1_at(0xf6, 2); l1_at(0xf7, 1); l1_at(0xf8, 2); l1_at(0xe0, 1); l1_at(0xff, 1); reach!(); }
}

//@ also=C13 tier=off timeout=1800 mem=10 bits=72 unwind=12 unwindset="memcmp=12;from_utf8=12;run_utf8_validation=12" fns=echo_wasm_abi::canonical::decode_value,dec_value,read_len,read_uint,echo_wasm_abi::canonical::encode_value,enc_int,write_major
//@ bounds="tag heads 0xc0, 0xc1, 0xd8, 0xdb followed by symbolic bytes"
//@ desc="ABI CBOR: tagged items are rejected whatever follows"
proof! {
    #[cfg_attr(kani, kani::stub(alloc::fmt::format, crate::stubs::fmt_format))]
    fn c12_abi_tags() { l1_at(0xc0, 2); l1_at(0xc1, 2); l1_at(0xd8, 3); l1_at(0xdb, 10); reach!(); }
}

//@ also=C13 tier=off timeout=1800 mem=10 bits=72 unwind=12 unwindset="memcmp=12;from_utf8=12;run_utf8_validation=12" fns=echo_wasm_abi::canonical::decode_value,dec_value,read_len,read_uint,echo_wasm_abi::canonical::encode_value,enc_int,write_major
//@ bounds="byte-string heads 0x40..0x42 with short, exact and trailing input; payload symbolic"
//@ desc="ABI CBOR: byte strings: declared length checked against the remaining input; accepted => canonical"
proof! {
    #[cfg_attr(kani, kani::stub(alloc::fmt::format, crate::stubs::fmt_format))]
    fn c12_abi_bytes_small() { l1_at(0x40, 1); l1_at(0x40, 2); l1_at(0x41, 1); l1_at(0x41, 2); l1_at(0x41, 3); l1_at(0x42, 3); reach!(); }
}

//@ also=C13 tier=off timeout=1800 mem=10 bits=72 unwind=12 unwindset="memcmp=12;from_utf8=12;run_utf8_validation=12" fns=echo_wasm_abi::canonical::decode_value,dec_value,read_len,read_uint,echo_wasm_abi::canonical::encode_value,enc_int,write_major
//@ bounds="byte-string head 0x58 (1-byte length) with 0..2 following bytes"
//@ desc="ABI CBOR: a 1-byte length <= 23 is non-minimal, a larger one exceeds the input: both rejected without allocating the declared length"
proof! {
    #[cfg_attr(kani, kani::stub(alloc::fmt::format, crate::stubs::fmt_format))]
    fn c12_abi_bytes_w1() { l1_at(0x58, 1); l1_at(0x58, 2); l1_at(0x58, 3); reach!(); }
}

//@ also=C13 tier=off timeout=1800 mem=10 bits=72 unwind=12 unwindset="memcmp=12;from_utf8=12;run_utf8_validation=12" fns=echo_wasm_abi::canonical::decode_value,dec_value,read_len,read_uint,echo_wasm_abi::canonical::encode_value,enc_int,write_major
//@ bounds="text heads 0x60..0x62 with symbolic payload bytes"
//@ desc="ABI CBOR: text strings: invalid UTF-8 rejected, valid text re-encodes to itself"
proof! {
    #[cfg_attr(kani, kani::stub(alloc::fmt::format, crate::stubs::fmt_format))]
    fn c12_abi_text_small() { l1_at(0x60, 1); l1_at(0x61, 2); l1_at(0x62, 3); l1_at(0x61, 3); reach!(); }
}

//@ also=C13 tier=quick timeout=900 mem=10 bits=11 unwind=12 unwindset="memcmp=12" fns=echo_wasm_abi::canonical::decode_value,dec_value,read_f,is_exact_int,half::f16::to_f64
//@ bounds="the 3-byte strings f9 xx yy whose half-precision pattern is a NaN (exponent all ones, mantissa != 0: 2046 patterns)"
//@ desc="ABI CBOR: NaN has exactly one accepted encoding - the decoder accepts a half-precision NaN only as f9 7e 00, the bytes the encoder emits for every NaN (enc_float writes f16::NAN); any other NaN payload or sign must be rejected, not normalised"
proof! {
    #[cfg_attr(kani, kani::stub(alloc::fmt::format, crate::stubs::fmt_format))]
    #[cfg_attr(kani, kani::stub(half::binary16::arch::f16_to_f64, half::binary16::arch::f16_to_f64_fallback))]
    fn c12_abi_f16_nan_single_encoding() {
        let sign: bool = kani::any();
        let mant: u16 = kani::any();
        kani::assume(mant >= 1 && mant < 1024);
        let bits: u16 = ((sign as u16) << 15) | 0x7c00 | mant;
        let buf = [0xf9u8, (bits >> 8) as u8, bits as u8];
        match decode_value(&buf) {
            Ok(v) => { core::mem::forget(v); assert!(bits == 0x7e00, "ABI CBOR: non-canonical f16 NaN accepted (it re-encodes as f9 7e 00)"); }
            Err(e) => core::mem::forget(e),
        }
        reach!();
    }
}

//@ also=C13 tier=quick timeout=1800 mem=14 bits=32 unwind=12 unwindset="memcmp=12" fns=echo_wasm_abi::canonical::decode_value,dec_value,read_f,is_exact_int,can_fit_f16
//@ bounds="the 5-byte strings fa xx xx xx xx (all 2^32 single-precision patterns)"
//@ desc="ABI CBOR: a float sent as f32 is accepted only if it is not exactly representable as f16 (every half-precision value, normal or subnormal, must have been sent as f16) - non-minimal float widths are rejected, not normalised"
proof! {
    #[cfg_attr(kani, kani::stub(alloc::fmt::format, crate::stubs::fmt_format))]
    #[cfg_attr(kani, kani::stub(half::binary16::arch::f16_to_f64, half::binary16::arch::f16_to_f64_fallback))]
    #[cfg_attr(kani, kani::stub(half::binary16::arch::f64_to_f16, half::binary16::arch::f64_to_f16_fallback))]
    fn c12_abi_f32_minimal_width() {
        let raw: [u8; 4] = kani::any();
        let buf = [0xfau8, raw[0], raw[1], raw[2], raw[3]];
        let f = f32::from_be_bytes(raw);
        // the statement's own predicate: f is a half-precision value iff narrowing to f16 and
        // widening back is the identity (exponent/mantissa test written out on the bit pattern)
        let bits = f.to_bits();
        let (e, m) = (((bits >> 23) & 0xff) as i32 - 127, bits & 0x7f_ffff);
        let fits_f16 = if (bits & 0x7fff_ffff) == 0 || ((bits >> 23) & 0xff) == 0xff { true }
            else if e >= -14 && e <= 15 { m & 0x1fff == 0 }                      // normal half: 10 mantissa bits
            else if e >= -24 && e < -14 { m & ((1u32 << (13 + (-14 - e) as u32)) - 1) == 0 } // subnormal half
            else { false };
        match decode_value(&buf) {
            Ok(v) => { core::mem::forget(v); assert!(!fits_f16, "ABI CBOR: f32 encoding of a half-precision value accepted (non-minimal float width)"); }
            Err(e) => core::mem::forget(e),
        }
        reach!();
    }
}

//@ also=C13 tier=off timeout=3600 mem=28 bits=11 unwind=12 unwindset="memcmp=12" fns=echo_wasm_abi::canonical::dec_value,read_f,is_exact_int,enc_float,write_half,half::f16::to_f64
//@ bounds="the 3-byte strings f9 xx yy whose half-precision exponent field is all ones (both infinities and every NaN payload: 2^11 patterns)"
//@ desc="ABI CBOR: f16 infinities and NaN - accepted => re-encodes to exactly the same 3 bytes, i.e. NaN has exactly one accepted encoding (f9 7e 00)"
proof! {
    #[cfg_attr(kani, kani::stub(alloc::fmt::format, crate::stubs::fmt_format))]
    #[cfg_attr(kani, kani::stub(half::binary16::arch::f16_to_f64, half::binary16::arch::f16_to_f64_fallback))]
    #[cfg_attr(kani, kani::stub(half::binary16::arch::f64_to_f16, half::binary16::arch::f64_to_f16_fallback))]
    fn c12_abi_f16_nan_inf() {
        let sign: bool = kani::any();
        let mant: u16 = kani::any();
        kani::assume(mant < 1024);
        let bits: u16 = ((sign as u16) << 15) | 0x7c00 | mant;
        let mut buf = [0u8; N];
        buf[0] = 0xf9;
        buf[1] = (bits >> 8) as u8;
        buf[2] = bits as u8;
        l1_float(&buf, 3);
        reach!();
    }
}

//@ also=C13 tier=quick timeout=1800 mem=12 bits=16 unwind=12 unwindset="memcmp=12" fns=echo_wasm_abi::canonical::dec_value,read_f,is_exact_int,enc_float,write_half,half::f16::to_f64,half::f16::from_f64
//@ bounds="head 0xf9 with exactly 2 following bytes (all 2^16 half-precision patterns)"
//@ desc="ABI CBOR: f16 accepted => re-encodes to exactly the same 3 bytes (integral values must have been ints; NaN has one encoding)"
proof! {
    #[cfg_attr(kani, kani::stub(alloc::fmt::format, crate::stubs::fmt_format))]
    #[cfg_attr(kani, kani::stub(half::binary16::arch::f16_to_f64, half::binary16::arch::f16_to_f64_fallback))]
    #[cfg_attr(kani, kani::stub(half::binary16::arch::f64_to_f16, half::binary16::arch::f64_to_f16_fallback))]
    fn c12_abi_f16() { let mut buf: [u8; N] = kani::any(); buf[0] = 0xf9; l1_float(&buf, 3); reach!(); }
}

//@ also=C13 tier=quick timeout=1500 mem=14 bits=40 unwind=12 unwindset="memcmp=12" fns=echo_wasm_abi::canonical::dec_value,read_f,is_exact_int,can_fit_f16,enc_float,write_f32
//@ bounds="head 0xfa with 4 and 5 following bytes (all 2^32 single-precision patterns)"
//@ desc="ABI CBOR: f32 accepted => canonical (values that fit f16 or are integral are rejected, the rest re-encode as the same 5 bytes)"
proof! {
    #[cfg_attr(kani, kani::stub(alloc::fmt::format, crate::stubs::fmt_format))]
    #[cfg_attr(kani, kani::stub(half::binary16::arch::f16_to_f64, half::binary16::arch::f16_to_f64_fallback))]
    #[cfg_attr(kani, kani::stub(half::binary16::arch::f64_to_f16, half::binary16::arch::f64_to_f16_fallback))]
    fn c12_abi_f32() { let mut buf: [u8; N] = kani::any(); buf[0] = 0xfa; l1_float(&buf, 5); reach!(); }
}

/// `[h0, args..]` of *concrete* total length `len`: the decoder must answer with an error
/// (nothing of the declared count is present) and must not panic or size an allocation by it.
#[inline(always)]
fn fixed(h0: u8, len: usize) {
    let mut buf: [u8; N] = kani::any();
    buf[0] = h0;
    match decode_value(&buf[..len]) {
        Ok(v) => { core::mem::forget(v); assert!(false, "ABI CBOR: container with a declared count but no elements accepted"); }
        Err(e) => core::mem::forget(e),
    }
}

//@ also=C12 tier=quick timeout=1800 mem=12 bits=72 unwind=12 unwindset="memcmp=12" fns=echo_wasm_abi::canonical::dec_value,read_len,read_uint
//@ bounds="array and map heads with an explicit 1/2/4/8-byte length (0x98..=0x9b, 0xb8..=0xbb), each followed by exactly the length bytes and no elements; all values of the length bytes"
//@ desc="C13: a declared element count far beyond the input (up to 2^64-1) is answered with a typed error - no capacity-overflow panic and no allocation sized by the declared count"
proof! {
    #[cfg_attr(kani, kani::stub(alloc::fmt::format, crate::stubs::fmt_format))]
    fn c13_abi_declared_count_beyond_input() {
        fixed(0x98, 2); fixed(0x99, 3); fixed(0x9a, 5); fixed(0x9b, 9);
        fixed(0xb8, 2); fixed(0xb9, 3); fixed(0xba, 5); fixed(0xbb, 9);
        reach!();
    }
}

/// One-element array `81 <elem head> ..` of concrete total length.
#[inline(always)]
fn arr1(elem: u8, len: usize) {
    let mut buf: [u8; N] = kani::any();
    buf[0] = 0x81;
    buf[1] = elem;
    l1_array1(&buf, len);
}

//@ also=C13 tier=off timeout=2400 mem=12 bits=64 unwind=12 unwindset="memcmp=12" fns=echo_wasm_abi::canonical::dec_value,enc_value,enc_len
//@ bounds="one-element arrays 81 00, 81 18 xx, 81 f6, 81 f6 + trailing byte, 81 80 (nested empty array), 81 alone (missing element)"
//@ desc="ABI CBOR arrays: accepted => canonical; element errors (non-minimal int) propagate; trailing byte and missing element rejected"
proof! {
    #[cfg_attr(kani, kani::stub(alloc::fmt::format, crate::stubs::fmt_format))]
    fn c12_abi_array_of_one() {
        arr1(0x00, 2); arr1(0x18, 3); arr1(0xf6, 2); arr1(0xf6, 3); arr1(0x80, 2); arr1(0x00, 1);
        reach!();
    }
}

//@ also=C13 tier=off timeout=3600 mem=14 bits=64 unwind=12 unwindset="memcmp=12;from_utf8=12;run_utf8_validation=12" fns=echo_wasm_abi::canonical::dec_value,enc_value,enc_len
//@ bounds="one-element arrays over element heads 19, 1b, 20, 38, 40, 41, 60, 61, a0, c0, f4, f7, f9 at their exact length"
//@ desc="ABI CBOR arrays (more element kinds): accepted => canonical"
proof! {
    #[cfg_attr(kani, kani::stub(alloc::fmt::format, crate::stubs::fmt_format))]
    fn c12_abi_array_of_one_more() {
        arr1(0x19, 4); arr1(0x1b, 10); arr1(0x20, 2); arr1(0x38, 3); arr1(0x40, 2); arr1(0x41, 3); arr1(0x60, 2); arr1(0x61, 3);
        arr1(0xa0, 2); arr1(0xc0, 3); arr1(0xf4, 2); arr1(0xf7, 2); arr1(0xf9, 4);
        reach!();
    }
}

//@ also=C13 tier=off timeout=2400 mem=14 bits=24 unwind=8 unwindset="memcmp=12;insertion_sort=4;insert_tail=4" fns=echo_wasm_abi::canonical::dec_value,enc_value
//@ bounds="two-entry maps a2 18 x f6 18 y f6 with symbolic key bytes x, y (all 2^16 pairs), and the same with a trailing byte"
//@ desc="ABI maps: accepted => keys strictly ascending by encoded bytes (duplicates, descending order and non-minimal keys rejected, not normalised)"
proof! {
    #[cfg_attr(kani, kani::stub(alloc::fmt::format, crate::stubs::fmt_format))]
    fn c12_abi_map_key_order() {
        let (x, y): (u8, u8) = (kani::any(), kani::any());
        let buf: [u8; N] = [0xa2, 0x18, x, 0xf6, 0x18, y, 0xf6, kani::any(), 0, 0];
        let len: usize = if kani::any() { 7 } else { 8 };
        if let Ok(v) = decode_value(&buf[..len]) {
            assert!(len == 7 && x >= 24 && y >= 24 && x < y, "ABI CBOR: map with unsorted, duplicate or non-minimal keys accepted");
            core::mem::forget(v);
        }
        reach!();
    }
}

//@ tier=off timeout=60 bits=0 fns=echo_wasm_abi::canonical::dec_value
//@ desc="native-only reproduction of the recorded finding F3c (never run under Kani): 2^20 nested one-element arrays overflow the stack of decode_value, which has no nesting limit"
proof! {
    fn c13_native_abi_deep_nesting() {
        let mut input = vec![0x81u8; 1 << 20];
        input.push(0x00);
        let r = decode_value(&input);
        core::mem::forget(r);
    }
}

//@ tier=off timeout=900 mem=10 bits=16 unwind=12 unwindset="memcmp=12" fns=probe
//@ desc="probe exact"
proof! {
    #[cfg_attr(kani, kani::stub(alloc::fmt::format, crate::stubs::fmt_format))]
    fn c12_abi_probe_exact() { l1_at(0x19, 3); reach!(); }
}

//@ tier=off timeout=900 mem=10 bits=24 unwind=12 unwindset="memcmp=12" fns=probe
//@ desc="probe trailing"
proof! {
    #[cfg_attr(kani, kani::stub(alloc::fmt::format, crate::stubs::fmt_format))]
    fn c12_abi_probe_trailing() { l1_at(0x19, 4); reach!(); }
}


/// Decode-only canonical-form predicate for integer heads (no encoder in the loop): the head
/// byte and the total length are concrete, the argument bytes symbolic.
#[inline(always)]
fn int_case(head: u8, nbytes: usize, trailing: usize) {
    use ciborium::value::Value;
    let mut buf: [u8; N] = kani::any();
    buf[0] = head;
    let len = 1 + nbytes + trailing;
    let mut arg: u64 = 0;
    let mut i = 0;
    while i < nbytes { arg = (arg << 8) | buf[1 + i] as u64; i += 1; }
    let minimal = match nbytes { 1 => arg >= 24, 2 => arg > 0xff, 4 => arg > 0xffff, _ => arg > 0xffff_ffff };
    match decode_value(&buf[..len]) {
        Ok(v) => {
            assert!(trailing == 0, "ABI CBOR: trailing byte after an integer accepted");
            assert!(minimal, "ABI CBOR: non-minimal integer width accepted");
            match &v {
                Value::Integer(n) => {
                    let want: i128 = if head & 0x20 == 0 { arg as i128 } else { -1 - arg as i128 };
                    assert!(i128::from(*n) == want, "ABI CBOR: integer decoded to a different value");
                }
                _ => assert!(false, "ABI CBOR: integer head decoded to a non-integer"),
            }
            core::mem::forget(v);
        }
        Err(e) => {
            core::mem::forget(e);
            // positive ints of minimal width and exact length must be accepted (negatives below i64::MIN are a documented typed error)
            if head & 0x20 == 0 { assert!(!(minimal && trailing == 0), "ABI CBOR: canonical unsigned integer rejected"); }
        }
    }
}

//@ also=C13 tier=off timeout=1500 mem=12 bits=120 unwind=12 unwindset="memcmp=12" fns=echo_wasm_abi::canonical::decode_value,dec_value,read_len,read_uint
//@ bounds="unsigned integer heads 0x18, 0x19, 0x1a, 0x1b with exactly their 1/2/4/8 argument bytes (all values) and with one trailing byte"
//@ desc="ABI CBOR unsigned ints: accepted <=> the argument does not fit the next smaller width and nothing trails; the decoded value is the argument (non-minimal widths and trailing bytes rejected, not normalised)"
proof! {
    #[cfg_attr(kani, kani::stub(alloc::fmt::format, crate::stubs::fmt_format))]
    fn c12_abi_uint_minimal_width() {
        int_case(0x18, 1, 0); int_case(0x19, 2, 0); int_case(0x1a, 4, 0); int_case(0x1b, 8, 0);
        int_case(0x18, 1, 1); int_case(0x1b, 8, 1);
        reach!();
    }
}

//@ also=C13 tier=off timeout=1500 mem=12 bits=120 unwind=12 unwindset="memcmp=12" fns=echo_wasm_abi::canonical::decode_value,dec_value,read_len,read_uint
//@ bounds="negative integer heads 0x38, 0x39, 0x3a, 0x3b with exactly their 1/2/4/8 argument bytes (all values) and 0x38 with one trailing byte"
//@ desc="ABI CBOR negative ints: accepted => minimal width, nothing trails, value == -1 - argument (no wrap-around for large magnitudes)"
proof! {
    #[cfg_attr(kani, kani::stub(alloc::fmt::format, crate::stubs::fmt_format))]
    fn c12_abi_nint_minimal_width() {
        int_case(0x38, 1, 0); int_case(0x39, 2, 0); int_case(0x3a, 4, 0); int_case(0x3b, 8, 0);
        int_case(0x38, 1, 1);
        reach!();
    }
}


// ---- one (head, exact length) case per harness: a single decode + re-encode keeps the query small
//@ also=C13 tier=quick timeout=900 mem=4 bits=0 unwind=12 unwindset="memcmp=12" fns=echo_wasm_abi::canonical::decode_value,dec_value,read_len,read_uint,echo_wasm_abi::canonical::encode_value,enc_value,enc_int,write_major
//@ bounds="head 0x00 (uint immediate 0x00) with exactly 0 following byte(s), all values"
//@ desc="ABI CBOR uint immediate 0x00: accepted => re-encodes to exactly the same 1 byte(s) (non-minimal forms rejected, not normalised); nothing panics"
proof! {
    #[cfg_attr(kani, kani::stub(alloc::fmt::format, crate::stubs::fmt_format))]
    fn c12_abi_exact_00() { l1_at(0x00, 1); reach!(); }
}

//@ also=C13 tier=quick timeout=900 mem=4 bits=0 unwind=12 unwindset="memcmp=12" fns=echo_wasm_abi::canonical::decode_value,dec_value,read_len,read_uint,echo_wasm_abi::canonical::encode_value,enc_value,enc_int,write_major
//@ bounds="head 0x17 (uint immediate 0x17) with exactly 0 following byte(s), all values"
//@ desc="ABI CBOR uint immediate 0x17: accepted => re-encodes to exactly the same 1 byte(s) (non-minimal forms rejected, not normalised); nothing panics"
proof! {
    #[cfg_attr(kani, kani::stub(alloc::fmt::format, crate::stubs::fmt_format))]
    fn c12_abi_exact_17() { l1_at(0x17, 1); reach!(); }
}

//@ also=C13 tier=quick timeout=900 mem=4 bits=8 unwind=12 unwindset="memcmp=12" fns=echo_wasm_abi::canonical::decode_value,dec_value,read_len,read_uint,echo_wasm_abi::canonical::encode_value,enc_value,enc_int,write_major
//@ bounds="head 0x18 (uint, 1-byte argument) with exactly 1 following byte(s), all values"
//@ desc="ABI CBOR uint, 1-byte argument: accepted => re-encodes to exactly the same 2 byte(s) (non-minimal forms rejected, not normalised); nothing panics"
proof! {
    #[cfg_attr(kani, kani::stub(alloc::fmt::format, crate::stubs::fmt_format))]
    fn c12_abi_exact_18() { l1_at(0x18, 2); reach!(); }
}

//@ also=C13 tier=quick timeout=900 mem=4 bits=16 unwind=12 unwindset="memcmp=12" fns=echo_wasm_abi::canonical::decode_value,dec_value,read_len,read_uint,echo_wasm_abi::canonical::encode_value,enc_value,enc_int,write_major
//@ bounds="head 0x19 (uint, 2-byte argument) with exactly 2 following byte(s), all values"
//@ desc="ABI CBOR uint, 2-byte argument: accepted => re-encodes to exactly the same 3 byte(s) (non-minimal forms rejected, not normalised); nothing panics"
proof! {
    #[cfg_attr(kani, kani::stub(alloc::fmt::format, crate::stubs::fmt_format))]
    fn c12_abi_exact_19() { l1_at(0x19, 3); reach!(); }
}

//@ also=C13 tier=quick timeout=900 mem=4 bits=32 unwind=12 unwindset="memcmp=12" fns=echo_wasm_abi::canonical::decode_value,dec_value,read_len,read_uint,echo_wasm_abi::canonical::encode_value,enc_value,enc_int,write_major
//@ bounds="head 0x1a (uint, 4-byte argument) with exactly 4 following byte(s), all values"
//@ desc="ABI CBOR uint, 4-byte argument: accepted => re-encodes to exactly the same 5 byte(s) (non-minimal forms rejected, not normalised); nothing panics"
proof! {
    #[cfg_attr(kani, kani::stub(alloc::fmt::format, crate::stubs::fmt_format))]
    fn c12_abi_exact_1a() { l1_at(0x1a, 5); reach!(); }
}

//@ also=C13 tier=quick timeout=900 mem=4 bits=64 unwind=12 unwindset="memcmp=12" fns=echo_wasm_abi::canonical::decode_value,dec_value,read_len,read_uint,echo_wasm_abi::canonical::encode_value,enc_value,enc_int,write_major
//@ bounds="head 0x1b (uint, 8-byte argument) with exactly 8 following byte(s), all values"
//@ desc="ABI CBOR uint, 8-byte argument: accepted => re-encodes to exactly the same 9 byte(s) (non-minimal forms rejected, not normalised); nothing panics"
proof! {
    #[cfg_attr(kani, kani::stub(alloc::fmt::format, crate::stubs::fmt_format))]
    fn c12_abi_exact_1b() { l1_at(0x1b, 9); reach!(); }
}

//@ also=C13 tier=quick timeout=900 mem=4 bits=0 unwind=12 unwindset="memcmp=12" fns=echo_wasm_abi::canonical::decode_value,dec_value,read_len,read_uint,echo_wasm_abi::canonical::encode_value,enc_value,enc_int,write_major
//@ bounds="head 0x20 (nint immediate 0x20) with exactly 0 following byte(s), all values"
//@ desc="ABI CBOR nint immediate 0x20: accepted => re-encodes to exactly the same 1 byte(s) (non-minimal forms rejected, not normalised); nothing panics"
proof! {
    #[cfg_attr(kani, kani::stub(alloc::fmt::format, crate::stubs::fmt_format))]
    fn c12_abi_exact_20() { l1_at(0x20, 1); reach!(); }
}

//@ also=C13 tier=quick timeout=900 mem=4 bits=8 unwind=12 unwindset="memcmp=12" fns=echo_wasm_abi::canonical::decode_value,dec_value,read_len,read_uint,echo_wasm_abi::canonical::encode_value,enc_value,enc_int,write_major
//@ bounds="head 0x38 (nint, 1-byte argument) with exactly 1 following byte(s), all values"
//@ desc="ABI CBOR nint, 1-byte argument: accepted => re-encodes to exactly the same 2 byte(s) (non-minimal forms rejected, not normalised); nothing panics"
proof! {
    #[cfg_attr(kani, kani::stub(alloc::fmt::format, crate::stubs::fmt_format))]
    fn c12_abi_exact_38() { l1_at(0x38, 2); reach!(); }
}

//@ also=C13 tier=quick timeout=900 mem=4 bits=16 unwind=12 unwindset="memcmp=12" fns=echo_wasm_abi::canonical::decode_value,dec_value,read_len,read_uint,echo_wasm_abi::canonical::encode_value,enc_value,enc_int,write_major
//@ bounds="head 0x39 (nint, 2-byte argument) with exactly 2 following byte(s), all values"
//@ desc="ABI CBOR nint, 2-byte argument: accepted => re-encodes to exactly the same 3 byte(s) (non-minimal forms rejected, not normalised); nothing panics"
proof! {
    #[cfg_attr(kani, kani::stub(alloc::fmt::format, crate::stubs::fmt_format))]
    fn c12_abi_exact_39() { l1_at(0x39, 3); reach!(); }
}

//@ also=C13 tier=quick timeout=900 mem=4 bits=32 unwind=12 unwindset="memcmp=12" fns=echo_wasm_abi::canonical::decode_value,dec_value,read_len,read_uint,echo_wasm_abi::canonical::encode_value,enc_value,enc_int,write_major
//@ bounds="head 0x3a (nint, 4-byte argument) with exactly 4 following byte(s), all values"
//@ desc="ABI CBOR nint, 4-byte argument: accepted => re-encodes to exactly the same 5 byte(s) (non-minimal forms rejected, not normalised); nothing panics"
proof! {
    #[cfg_attr(kani, kani::stub(alloc::fmt::format, crate::stubs::fmt_format))]
    fn c12_abi_exact_3a() { l1_at(0x3a, 5); reach!(); }
}

//@ also=C13 tier=quick timeout=900 mem=4 bits=64 unwind=12 unwindset="memcmp=12" fns=echo_wasm_abi::canonical::decode_value,dec_value,read_len,read_uint,echo_wasm_abi::canonical::encode_value,enc_value,enc_int,write_major
//@ bounds="head 0x3b (nint, 8-byte argument) with exactly 8 following byte(s), all values"
//@ desc="ABI CBOR nint, 8-byte argument: accepted => re-encodes to exactly the same 9 byte(s) (non-minimal forms rejected, not normalised); nothing panics"
proof! {
    #[cfg_attr(kani, kani::stub(alloc::fmt::format, crate::stubs::fmt_format))]
    fn c12_abi_exact_3b() { l1_at(0x3b, 9); reach!(); }
}

//@ also=C13 tier=quick timeout=900 mem=4 bits=0 unwind=12 unwindset="memcmp=12" fns=echo_wasm_abi::canonical::decode_value,dec_value,read_len,read_uint,echo_wasm_abi::canonical::encode_value,enc_value,enc_int,write_major
//@ bounds="head 0xf4 (false) with exactly 0 following byte(s), all values"
//@ desc="ABI CBOR false: accepted => re-encodes to exactly the same 1 byte(s) (non-minimal forms rejected, not normalised); nothing panics"
proof! {
    #[cfg_attr(kani, kani::stub(alloc::fmt::format, crate::stubs::fmt_format))]
    fn c12_abi_exact_f4() { l1_at(0xf4, 1); reach!(); }
}

//@ also=C13 tier=quick timeout=900 mem=4 bits=0 unwind=12 unwindset="memcmp=12" fns=echo_wasm_abi::canonical::decode_value,dec_value,read_len,read_uint,echo_wasm_abi::canonical::encode_value,enc_value,enc_int,write_major
//@ bounds="head 0xf5 (true) with exactly 0 following byte(s), all values"
//@ desc="ABI CBOR true: accepted => re-encodes to exactly the same 1 byte(s) (non-minimal forms rejected, not normalised); nothing panics"
proof! {
    #[cfg_attr(kani, kani::stub(alloc::fmt::format, crate::stubs::fmt_format))]
    fn c12_abi_exact_f5() { l1_at(0xf5, 1); reach!(); }
}

//@ also=C13 tier=quick timeout=900 mem=4 bits=0 unwind=12 unwindset="memcmp=12" fns=echo_wasm_abi::canonical::decode_value,dec_value,read_len,read_uint,echo_wasm_abi::canonical::encode_value,enc_value,enc_int,write_major
//@ bounds="head 0xf6 (null) with exactly 0 following byte(s), all values"
//@ desc="ABI CBOR null: accepted => re-encodes to exactly the same 1 byte(s) (non-minimal forms rejected, not normalised); nothing panics"
proof! {
    #[cfg_attr(kani, kani::stub(alloc::fmt::format, crate::stubs::fmt_format))]
    fn c12_abi_exact_f6() { l1_at(0xf6, 1); reach!(); }
}

//@ also=C13 tier=quick timeout=900 mem=4 bits=0 unwind=12 unwindset="memcmp=12" fns=echo_wasm_abi::canonical::decode_value,dec_value,read_len,read_uint,echo_wasm_abi::canonical::encode_value,enc_value,enc_int,write_major
//@ bounds="head 0x40 (empty byte string) with exactly 0 following byte(s), all values"
//@ desc="ABI CBOR empty byte string: accepted => re-encodes to exactly the same 1 byte(s) (non-minimal forms rejected, not normalised); nothing panics"
proof! {
    #[cfg_attr(kani, kani::stub(alloc::fmt::format, crate::stubs::fmt_format))]
    fn c12_abi_exact_40() { l1_at(0x40, 1); reach!(); }
}

//@ also=C13 tier=quick timeout=900 mem=4 bits=16 unwind=12 unwindset="memcmp=12" fns=echo_wasm_abi::canonical::decode_value,dec_value,read_len,read_uint,echo_wasm_abi::canonical::encode_value,enc_value,enc_int,write_major
//@ bounds="head 0x42 (2-byte byte string) with exactly 2 following byte(s), all values"
//@ desc="ABI CBOR 2-byte byte string: accepted => re-encodes to exactly the same 3 byte(s) (non-minimal forms rejected, not normalised); nothing panics"
proof! {
    #[cfg_attr(kani, kani::stub(alloc::fmt::format, crate::stubs::fmt_format))]
    fn c12_abi_exact_42() { l1_at(0x42, 3); reach!(); }
}

/// Decode-only: this (head, total length) must be rejected whatever the other bytes are.
#[inline(always)]
fn must_reject(head: u8, len: usize) {
    let mut buf: [u8; N] = kani::any();
    buf[0] = head;
    match decode_value(&buf[..len]) {
        Ok(v) => { core::mem::forget(v); assert!(false, "ABI CBOR: input that cannot be canonical was accepted"); }
        Err(e) => core::mem::forget(e),
    }
}

//@ also=C13 tier=off timeout=1500 mem=12 bits=300 unwind=12 unwindset="memcmp=12" fns=echo_wasm_abi::canonical::decode_value,dec_value,read_len
//@ bounds="items cut short, reserved/indefinite additional info, tags and unsupported simple values/floats - 16 (head, length) cases, every other byte symbolic"
//@ desc="ABI CBOR rejects malformed heads: truncated items, reserved/indefinite lengths, tags and unsupported simple values are typed errors, never accepted, never a panic"
proof! {
    #[cfg_attr(kani, kani::stub(alloc::fmt::format, crate::stubs::fmt_format))]
    fn c12_abi_rejects_malformed() {
        must_reject(0x18, 1); must_reject(0x19, 2); must_reject(0x1b, 8); must_reject(0x41, 1); must_reject(0x1c, 2); must_reject(0x1f, 2); must_reject(0x3c, 2); must_reject(0x5f, 2); must_reject(0x9f, 2); must_reject(0xbf, 2); must_reject(0xc0, 2); must_reject(0xd8, 3); must_reject(0xe0, 1); must_reject(0xf7, 1); must_reject(0xf8, 2); must_reject(0xff, 1);
        reach!();
    }
}

//@ also=C13 tier=off timeout=900 mem=4 bits=8 unwind=12 unwindset="memcmp=12" fns=echo_wasm_abi::canonical::decode_value,dec_value,read_len
//@ bounds="head 0x00 followed by its argument and exactly one trailing byte, all values"
//@ desc="ABI CBOR: a byte trailing an immediate integer is rejected, never ignored"
proof! {
    #[cfg_attr(kani, kani::stub(alloc::fmt::format, crate::stubs::fmt_format))]
    fn c12_abi_trailing_00() { must_reject(0x00, 2); reach!(); }
}

//@ also=C13 tier=off timeout=900 mem=4 bits=16 unwind=12 unwindset="memcmp=12" fns=echo_wasm_abi::canonical::decode_value,dec_value,read_len
//@ bounds="head 0x18 followed by its argument and exactly one trailing byte, all values"
//@ desc="ABI CBOR: a byte trailing a 1-byte-argument integer is rejected, never ignored"
proof! {
    #[cfg_attr(kani, kani::stub(alloc::fmt::format, crate::stubs::fmt_format))]
    fn c12_abi_trailing_18() { must_reject(0x18, 3); reach!(); }
}

//@ also=C13 tier=off timeout=900 mem=4 bits=8 unwind=12 unwindset="memcmp=12" fns=echo_wasm_abi::canonical::decode_value,dec_value,read_len
//@ bounds="head 0xf6 followed by its argument and exactly one trailing byte, all values"
//@ desc="ABI CBOR: a byte trailing null is rejected, never ignored"
proof! {
    #[cfg_attr(kani, kani::stub(alloc::fmt::format, crate::stubs::fmt_format))]
    fn c12_abi_trailing_f6() { must_reject(0xf6, 2); reach!(); }
}

//@ also=C13 tier=off timeout=900 mem=4 bits=8 unwind=12 unwindset="memcmp=12" fns=echo_wasm_abi::canonical::decode_value,dec_value,read_len
//@ bounds="head 0x40 followed by its argument and exactly one trailing byte, all values"
//@ desc="ABI CBOR: a byte trailing an empty byte string is rejected, never ignored"
proof! {
    #[cfg_attr(kani, kani::stub(alloc::fmt::format, crate::stubs::fmt_format))]
    fn c12_abi_trailing_40() { must_reject(0x40, 2); reach!(); }
}


/// Head with the 8-byte length 0xffff_ffff_ffff_ffff (the largest declarable length/count),
/// followed by `extra` symbolic bytes. The length is concrete on purpose: a symbolic 64-bit
/// allocation size makes CBMC model an allocation of symbolic size (see
/// `c13_abi_declared_count_beyond_input`, which covers all lengths on code that bounds its
/// allocations, and runs out of memory on code that does not).
#[inline(always)]
fn max_len(h0: u8, extra: usize) {
    let mut buf: [u8; N] = kani::any();
    buf[0] = h0;
    let mut i = 1;
    while i < 9 { buf[i] = 0xff; i += 1; }
    match decode_value(&buf[..9 + extra]) {
        Ok(v) => { core::mem::forget(v); assert!(false, "ABI CBOR: item declaring 2^64-1 bytes/elements accepted"); }
        Err(e) => core::mem::forget(e),
    }
}

//@ also=C12 tier=off timeout=900 mem=10 bits=8 unwind=12 unwindset="memcmp=12" fns=echo_wasm_abi::canonical::dec_value,read_len,need
//@ bounds="byte-string, text-string, array and map heads declaring the length/count 2^64-1, followed by 0 or 1 further (symbolic) byte"
//@ desc="C13: the largest declarable length never overflows the offset arithmetic, indexes out of range, overflows a capacity or panics - it is a typed error"
proof! {
    #[cfg_attr(kani, kani::stub(alloc::fmt::format, crate::stubs::fmt_format))]
    fn c13_abi_length_u64_max() {
        max_len(0x5b, 0); max_len(0x5b, 1); max_len(0x7b, 0); max_len(0x7b, 1);
        max_len(0x9b, 0); max_len(0x9b, 1); max_len(0xbb, 0); max_len(0xbb, 1);
        reach!();
    }
}

//@ also=C13 tier=quick timeout=1500 mem=14 bits=64 unwind=12 unwindset="memcmp=12" fns=echo_wasm_abi::canonical::dec_value,read_f,is_exact_int,can_fit_f16,can_fit_f32,enc_float,write_f64
//@ bounds="head 0xfb with exactly 8 following bytes (all 2^64 double-precision patterns)"
//@ desc="ABI CBOR: f64 accepted => canonical (values that fit f16/f32 or are integral are rejected, the rest re-encode as the same 9 bytes)"
proof! {
    #[cfg_attr(kani, kani::stub(alloc::fmt::format, crate::stubs::fmt_format))]
    #[cfg_attr(kani, kani::stub(half::binary16::arch::f16_to_f64, half::binary16::arch::f16_to_f64_fallback))]
    #[cfg_attr(kani, kani::stub(half::binary16::arch::f64_to_f16, half::binary16::arch::f64_to_f16_fallback))]
    fn c12_abi_f64() { let mut buf: [u8; N] = kani::any(); buf[0] = 0xfb; l1_float(&buf, 9); reach!(); }
}

/// L2 for floats: decode(encode(Float(f))) is `f` in the codec's normal form (integral values
/// come back as the integer with the same value; everything else as the same float).
#[inline(always)]
fn float_roundtrip(f: f64) {
    use ciborium::value::Value;
    match encode_value(&Value::Float(f)) {
        Ok(bytes) => {
            match decode_value(&bytes) {
                Ok(v) => {
                    match &v {
                        Value::Float(g) => assert!(g.to_bits() == f.to_bits() || (g.is_nan() && f.is_nan()), "ABI CBOR: decode(encode(float)) is a different float"),
                        Value::Integer(i) => assert!((i128::from(*i) as f64) == f, "ABI CBOR: decode(encode(integral float)) is a different integer"),
                        _ => assert!(false, "ABI CBOR: encoded float decodes to a non-number"),
                    }
                    core::mem::forget(v);
                }
                Err(e) => { core::mem::forget(e); assert!(false, "ABI CBOR: encoding of a float does not decode"); }
            }
            core::mem::forget(bytes);
        }
        Err(e) => { core::mem::forget(e); assert!(false, "ABI CBOR: float does not encode"); }
    }
}

//@ tier=off timeout=1500 mem=14 bits=64 unwind=12 unwindset="memcmp=12" fns=echo_wasm_abi::canonical::encode_value,enc_float,enc_int,write_major,echo_wasm_abi::canonical::decode_value
//@ bounds="every f64 with 2^64 <= |f| < 2^100 (all of them integral)"
//@ desc="ABI CBOR L2, integral floats beyond the CBOR integer range: decode(encode(Float(f))) must still denote f"
proof! {
    #[cfg_attr(kani, kani::stub(alloc::fmt::format, crate::stubs::fmt_format))]
    #[cfg_attr(kani, kani::stub(half::binary16::arch::f16_to_f64, half::binary16::arch::f16_to_f64_fallback))]
    #[cfg_attr(kani, kani::stub(half::binary16::arch::f64_to_f16, half::binary16::arch::f64_to_f16_fallback))]
    fn c12_abi_float_roundtrip_beyond_u64() {
        let f = f64::from_bits(kani::any());
        kani::assume(f.is_finite() && f.abs() >= 18446744073709551616.0 && f.abs() < 1.2676506002282294e30);
        float_roundtrip(f);
        reach!();
    }
}

//@ tier=off timeout=1500 mem=14 bits=64 unwind=12 unwindset="memcmp=12" fns=echo_wasm_abi::canonical::encode_value,enc_float,echo_wasm_abi::canonical::decode_value,dec_value
//@ bounds="every non-integral finite f64, every NaN and both infinities"
//@ desc="ABI CBOR L2, non-integral floats: decode(encode(Float(f))) == Float(f) bit for bit (NaN -> NaN), in whichever of the three widths the encoder picks"
proof! {
    #[cfg_attr(kani, kani::stub(alloc::fmt::format, crate::stubs::fmt_format))]
    #[cfg_attr(kani, kani::stub(half::binary16::arch::f16_to_f64, half::binary16::arch::f16_to_f64_fallback))]
    #[cfg_attr(kani, kani::stub(half::binary16::arch::f64_to_f16, half::binary16::arch::f64_to_f16_fallback))]
    fn c12_abi_float_roundtrip_nonintegral() {
        let f = f64::from_bits(kani::any());
        kani::assume(!f.is_finite() || f.fract() != 0.0);
        float_roundtrip(f);
        reach!();
    }
}
