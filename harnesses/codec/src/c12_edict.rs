//! C12-L1 / C13 for the Edict canonical CBOR codec (`echo_edict_canonical`).
//!
//! The head byte of every item is *concrete* inside each unrolled loop iteration (the loop
//! variable is a constant after unwinding), so symbolic execution follows exactly one decoder
//! arm per iteration; the argument/payload bytes and the total length stay symbolic. The union
//! of the loops is every head byte 0x00..=0xff.
use crate::kani;
use echo_edict_canonical::{decode_canonical_cbor_v1, encode_canonical_cbor_v1, CanonicalValueV1};

pub const N: usize = 10;

/// accepted => canonical (re-encodes to exactly the input); decoded trees are leaked, not dropped (R3).
#[inline(never)]
fn l1(buf: &[u8; N], len: usize) {
    match decode_canonical_cbor_v1(&buf[..len]) {
        Ok(v) => {
            match encode_canonical_cbor_v1(&v) {
                Ok(out) => {
                    assert!(out.len() == len, "Edict: accepted input re-encodes to a different length");
                    let mut flat = [0u8; N];
                    flat[..len].copy_from_slice(&out);
                    let mut i = 0;
                    while i < N {
                        if i < len { assert!(flat[i] == buf[i], "Edict: accepted input re-encodes to different bytes"); }
                        i += 1;
                    }
                    core::mem::forget(out);
                }
                Err(e) => { core::mem::forget(e); assert!(false, "Edict: accepted input does not re-encode"); }
            }
            core::mem::forget(v);
        }
        Err(e) => core::mem::forget(e),
    }
}

#[inline(always)]
fn heads(lo: u16, hi: u16, len_lo: usize) {
    let mut buf: [u8; N] = kani::any();
    let len: usize = kani::any();
    kani::assume(len >= len_lo && len <= N);
    let mut h = lo;
    while h <= hi {
        buf[0] = h as u8;
        l1(&buf, len);
        h += 1;
    }
}

//@ also=C13 tier=quick timeout=1500 mem=10 bits=80 unwind=12 unwindset="c12_edict::heads=34;memcmp=12" fns=echo_edict_canonical::decode_canonical_cbor_v1,Decoder::value,Decoder::argument,echo_edict_canonical::encode_canonical_cbor_v1,encode_integer,encode_type_value
//@ bounds="every byte string of length 1..=10 whose first byte is a major-0 head (0x00..=0x1f); argument bytes symbolic"
//@ desc="Edict unsigned ints: non-minimal widths, reserved/indefinite additional info, short and trailing input are rejected; every accepted string re-encodes to itself; nothing panics"
proof! {
    #[cfg_attr(kani, kani::stub(alloc::fmt::format, crate::stubs::fmt_format))]
    fn c12_edict_uint_heads() { heads(0x00, 0x1f, 1); reach!(); }
}

//@ also=C13 tier=quick timeout=1500 mem=10 bits=80 unwind=12 unwindset="c12_edict::heads=34;memcmp=12" fns=echo_edict_canonical::decode_canonical_cbor_v1,Decoder::value,Decoder::argument,encode_integer
//@ bounds="every byte string of length 1..=10 whose first byte is a major-1 head (0x20..=0x3f)"
//@ desc="Edict negative ints: accepted => canonical; -1 - u64 handled without overflow"
proof! {
    #[cfg_attr(kani, kani::stub(alloc::fmt::format, crate::stubs::fmt_format))]
    fn c12_edict_nint_heads() { heads(0x20, 0x3f, 1); reach!(); }
}

//@ also=C13 tier=quick timeout=1500 mem=10 bits=80 unwind=12 unwindset="c12_edict::heads=66;memcmp=12" fns=echo_edict_canonical::decode_canonical_cbor_v1,Decoder::value
//@ bounds="every byte string of length 1..=10 whose first byte is a tag (major 6) or simple/float head (major 7): 0xc0..=0xff"
//@ desc="Edict tags, floats, undefined and reserved simple values are rejected; false/true/null accepted only as exactly one byte"
proof! {
    #[cfg_attr(kani, kani::stub(alloc::fmt::format, crate::stubs::fmt_format))]
    fn c12_edict_tag_simple_heads() { heads(0xc0, 0xff, 1); reach!(); }
}

//@ also=C13 tier=quick timeout=1800 mem=12 bits=80 unwind=12 unwindset="c12_edict::heads=34;memcmp=12;from_utf8=12;run_utf8_validation=12" fns=echo_edict_canonical::decode_canonical_cbor_v1,Decoder::value,Decoder::length,Decoder::take,checked_collection_length
//@ bounds="every byte string of length 1..=10 whose first byte is a byte-string head (0x40..=0x5f); payload symbolic"
//@ desc="Edict byte strings: declared length checked against the remaining input before any allocation; accepted => canonical"
proof! {
    #[cfg_attr(kani, kani::stub(alloc::fmt::format, crate::stubs::fmt_format))]
    fn c12_edict_bytes_heads() { heads(0x40, 0x5f, 1); reach!(); }
}
