//! C12-L1 / C13 for the Edict canonical CBOR codec (`echo_edict_canonical`).
//!
//! Every case fixes the head byte and the total length *concretely* (shape concrete, content
//! symbolic - DESIGN R1): control flow through the decoder is then concrete and the solver
//! quantifies over all values of the argument/payload bytes. The head/length pairs of each
//! harness are listed in its bounds.
use crate::kani;
use echo_edict_canonical::{decode_canonical_cbor_v1, encode_canonical_cbor_v1, CanonicalValueV1};

pub const N: usize = 10;

#[inline(always)]
fn reencodes_to(v: CanonicalValueV1, buf: &[u8; N], len: usize) {
    match encode_canonical_cbor_v1(&v) {
        Ok(out) => {
            assert!(out.len() == len, "Edict: accepted input re-encodes to a different length");
            let mut flat = [0u8; N];
            flat[..len].copy_from_slice(&out);
            let mut i = 0;
            while i < N {
                if i < len { assert!(flat[i] == buf[i], "Edict: accepted input re-encodes to different bytes"); }
                i += 1;
            }
            core::mem::forget(out);
        }
        Err(e) => { core::mem::forget(e); assert!(false, "Edict: accepted input does not re-encode"); }
    }
    core::mem::forget(v);
}

/// accepted => canonical (re-encodes to exactly the input); decoded trees are leaked, not
/// dropped (R3). Each leaf variant is re-materialised inside its own match arm so that the
/// encoder is entered with a syntactically concrete variant (see c12_abi.rs).
#[inline(never)]
fn l1(buf: &[u8; N], len: usize) {
    match decode_canonical_cbor_v1(&buf[..len]) {
        Ok(v) => {
            match &v {
                CanonicalValueV1::Integer(i) => reencodes_to(CanonicalValueV1::Integer(*i), buf, len),
                CanonicalValueV1::Bool(b) => reencodes_to(CanonicalValueV1::Bool(*b), buf, len),
                CanonicalValueV1::Null => reencodes_to(CanonicalValueV1::Null, buf, len),
                CanonicalValueV1::Bytes(b) => reencodes_to(CanonicalValueV1::Bytes(b.clone()), buf, len),
                _ => assert!(false, "Edict: leaf head decoded to a text/container value"),
            }
            core::mem::forget(v);
        }
        Err(e) => core::mem::forget(e),
    }
}

/// One case: concrete head byte and concrete total length, every other byte symbolic.
#[inline(always)]
fn l1_at(head: u8, len: usize) {
    let mut buf: [u8; N] = kani::any();
    buf[0] = head;
    l1(&buf, len);
}

//@ also=C13 tier=off timeout=1800 mem=10 bits=72 unwind=12 unwindset="memcmp=12;from_utf8=12;run_utf8_validation=12" fns=echo_edict_canonical::decode_canonical_cbor_v1,Decoder::value,Decoder::argument,Decoder::length,Decoder::take,echo_edict_canonical::encode_canonical_cbor_v1,encode_integer,encode_type_value
//@ bounds="unsigned immediates 0x00 and 0x17: exact and with one trailing byte"
//@ desc="Edict: immediate unsigned ints are one byte; a trailing byte is rejected"
proof! {
    #[cfg_attr(kani, kani::stub(alloc::fmt::format, crate::stubs::fmt_format))]
    fn c12_edict_uint_immediate() { l1_at(0x00, 1); l1_at(0x00, 2); l1_at(0x17, 1); l1_at(0x17, 2); reach!(); }
}

//@ also=C13 tier=off timeout=1800 mem=10 bits=72 unwind=12 unwindset="memcmp=12;from_utf8=12;run_utf8_validation=12" fns=echo_edict_canonical::decode_canonical_cbor_v1,Decoder::value,Decoder::argument,Decoder::length,Decoder::take,echo_edict_canonical::encode_canonical_cbor_v1,encode_integer,encode_type_value
//@ bounds="head 0x18 with 0, 1 and 2 following bytes (all values)"
//@ desc="Edict: 1-byte argument: values <= 23 are non-minimal and rejected, short and trailing input rejected, the rest re-encode to themselves"
proof! {
    #[cfg_attr(kani, kani::stub(alloc::fmt::format, crate::stubs::fmt_format))]
    fn c12_edict_uint_w1() { l1_at(0x18, 1); l1_at(0x18, 2); l1_at(0x18, 3); reach!(); }
}

//@ also=C13 tier=off timeout=1800 mem=10 bits=72 unwind=12 unwindset="memcmp=12;from_utf8=12;run_utf8_validation=12" fns=echo_edict_canonical::decode_canonical_cbor_v1,Decoder::value,Decoder::argument,Decoder::length,Decoder::take,echo_edict_canonical::encode_canonical_cbor_v1,encode_integer,encode_type_value
//@ bounds="head 0x19 with 1, 2 and 3 following bytes (all values)"
//@ desc="Edict: 2-byte argument: values <= 0xff rejected as non-minimal; accepted => canonical"
proof! {
    #[cfg_attr(kani, kani::stub(alloc::fmt::format, crate::stubs::fmt_format))]
    fn c12_edict_uint_w2() { l1_at(0x19, 2); l1_at(0x19, 3); l1_at(0x19, 4); reach!(); }
}

//@ also=C13 tier=off timeout=1800 mem=10 bits=72 unwind=12 unwindset="memcmp=12;from_utf8=12;run_utf8_validation=12" fns=echo_edict_canonical::decode_canonical_cbor_v1,Decoder::value,Decoder::argument,Decoder::length,Decoder::take,echo_edict_canonical::encode_canonical_cbor_v1,encode_integer,encode_type_value
//@ bounds="head 0x1a with 3, 4 and 5 following bytes (all values)"
//@ desc="Edict: 4-byte argument: values <= 0xffff rejected; accepted => canonical"
proof! {
    #[cfg_attr(kani, kani::stub(alloc::fmt::format, crate::stubs::fmt_format))]
    fn c12_edict_uint_w4() { l1_at(0x1a, 4); l1_at(0x1a, 5); l1_at(0x1a, 6); reach!(); }
}

//@ also=C13 tier=off timeout=1800 mem=10 bits=72 unwind=12 unwindset="memcmp=12;from_utf8=12;run_utf8_validation=12" fns=echo_edict_canonical::decode_canonical_cbor_v1,Decoder::value,Decoder::argument,Decoder::length,Decoder::take,echo_edict_canonical::encode_canonical_cbor_v1,encode_integer,encode_type_value
//@ bounds="head 0x1b with 7, 8 and 9 following bytes (all values)"
//@ desc="Edict: 8-byte argument: values <= 0xffffffff rejected; accepted => canonical"
proof! {
    #[cfg_attr(kani, kani::stub(alloc::fmt::format, crate::stubs::fmt_format))]
    fn c12_edict_uint_w8() { l1_at(0x1b, 8); l1_at(0x1b, 9); l1_at(0x1b, 10); reach!(); }
}

//@ also=C13 tier=off timeout=1800 mem=10 bits=72 unwind=12 unwindset="memcmp=12;from_utf8=12;run_utf8_validation=12" fns=echo_edict_canonical::decode_canonical_cbor_v1,Decoder::value,Decoder::argument,Decoder::length,Decoder::take,echo_edict_canonical::encode_canonical_cbor_v1,encode_integer,encode_type_value
//@ bounds="heads 0x1c..0x1f (reserved / indefinite additional info) with one following byte"
//@ desc="Edict: reserved and indefinite-length heads are rejected"
proof! {
    #[cfg_attr(kani, kani::stub(alloc::fmt::format, crate::stubs::fmt_format))]
    fn c12_edict_uint_reserved() { l1_at(0x1c, 2); l1_at(0x1d, 2); l1_at(0x1e, 2); l1_at(0x1f, 2); reach!(); }
}

//@ also=C13 tier=off timeout=1800 mem=10 bits=72 unwind=12 unwindset="memcmp=12;from_utf8=12;run_utf8_validation=12" fns=echo_edict_canonical::decode_canonical_cbor_v1,Decoder::value,Decoder::argument,Decoder::length,Decoder::take,echo_edict_canonical::encode_canonical_cbor_v1,encode_integer,encode_type_value
//@ bounds="negative immediates and head 0x38 (all values of the argument byte)"
//@ desc="Edict: negative ints: immediates one byte, 1-byte argument minimality, trailing byte rejected"
proof! {
    #[cfg_attr(kani, kani::stub(alloc::fmt::format, crate::stubs::fmt_format))]
    fn c12_edict_nint_small() { l1_at(0x20, 1); l1_at(0x37, 1); l1_at(0x38, 2); l1_at(0x38, 3); reach!(); }
}

//@ also=C13 tier=off timeout=1800 mem=10 bits=72 unwind=12 unwindset="memcmp=12;from_utf8=12;run_utf8_validation=12" fns=echo_edict_canonical::decode_canonical_cbor_v1,Decoder::value,Decoder::argument,Decoder::length,Decoder::take,echo_edict_canonical::encode_canonical_cbor_v1,encode_integer,encode_type_value
//@ bounds="head 0x3b with 8 and 9 following bytes (all values)"
//@ desc="Edict: negative 8-byte argument: -1 - n computed without overflow; out-of-range magnitudes answered with a typed error; accepted => canonical"
proof! {
    #[cfg_attr(kani, kani::stub(alloc::fmt::format, crate::stubs::fmt_format))]
    fn c12_edict_nint_w8() { l1_at(0x3b, 9); l1_at(0x3b, 10); reach!(); }
}

//@ also=C13 tier=off timeout=1800 mem=10 bits=72 unwind=12 unwindset="memcmp=12;from_utf8=12;run_utf8_validation=12" fns=echo_edict_canonical::decode_canonical_cbor_v1,Decoder::value,Decoder::argument,Decoder::length,Decoder::take,echo_edict_canonical::encode_canonical_cbor_v1,encode_integer,encode_type_value
//@ bounds="simple-value heads false/true/null (exact, null also with a trailing byte), undefined, 1-byte simple, simple 0 and break"
//@ desc="Edict: false/true/null accepted as exactly one byte and re-encode to themselves; every other simple value is rejected"
proof! {
    #[cfg_attr(kani, kani::stub(alloc::fmt::format, crate::stubs::fmt_format))]
    fn c12_edict_simple() { l1_at(0xf4, 1); l1_at(0xf5, 1); l1_at(0xf6, 1); l1_at(0xf6, 2); l1_at(0xf7, 1); l1_at(0xf8, 2); l1_at(0xe0, 1); l1_at(0xff, 1); reach!(); }
}

//@ also=C13 tier=off timeout=1800 mem=10 bits=72 unwind=12 unwindset="memcmp=12;from_utf8=12;run_utf8_validation=12" fns=echo_edict_canonical::decode_canonical_cbor_v1,Decoder::value,Decoder::argument,Decoder::length,Decoder::take,echo_edict_canonical::encode_canonical_cbor_v1,encode_integer,encode_type_value
//@ bounds="tag heads 0xc0, 0xc1, 0xd8, 0xdb followed by symbolic bytes"
//@ desc="Edict: tagged items are rejected whatever follows"
proof! {
    #[cfg_attr(kani, kani::stub(alloc::fmt::format, crate::stubs::fmt_format))]
    fn c12_edict_tags() { l1_at(0xc0, 2); l1_at(0xc1, 2); l1_at(0xd8, 3); l1_at(0xdb, 10); reach!(); }
}

//@ also=C13 tier=off timeout=1800 mem=10 bits=72 unwind=12 unwindset="memcmp=12;from_utf8=12;run_utf8_validation=12" fns=echo_edict_canonical::decode_canonical_cbor_v1,Decoder::value,Decoder::argument,Decoder::length,Decoder::take,echo_edict_canonical::encode_canonical_cbor_v1,encode_integer,encode_type_value
//@ bounds="byte-string heads 0x40..0x42 with short, exact and trailing input; payload symbolic"
//@ desc="Edict: byte strings: declared length checked against the remaining input; accepted => canonical"
proof! {
    #[cfg_attr(kani, kani::stub(alloc::fmt::format, crate::stubs::fmt_format))]
    fn c12_edict_bytes_small() { l1_at(0x40, 1); l1_at(0x40, 2); l1_at(0x41, 1); l1_at(0x41, 2); l1_at(0x41, 3); l1_at(0x42, 3); reach!(); }
}

//@ also=C13 tier=off timeout=1800 mem=10 bits=72 unwind=12 unwindset="memcmp=12;from_utf8=12;run_utf8_validation=12" fns=echo_edict_canonical::decode_canonical_cbor_v1,Decoder::value,Decoder::argument,Decoder::length,Decoder::take,echo_edict_canonical::encode_canonical_cbor_v1,encode_integer,encode_type_value
//@ bounds="byte-string head 0x58 (1-byte length) with 0..2 following bytes"
//@ desc="Edict: a 1-byte length <= 23 is non-minimal, a larger one exceeds the input: both rejected without allocating the declared length"
proof! {
    #[cfg_attr(kani, kani::stub(alloc::fmt::format, crate::stubs::fmt_format))]
    fn c12_edict_bytes_w1() { l1_at(0x58, 1); l1_at(0x58, 2); l1_at(0x58, 3); reach!(); }
}

//@ also=C13 tier=off timeout=1800 mem=10 bits=72 unwind=12 unwindset="memcmp=12;from_utf8=12;run_utf8_validation=12" fns=echo_edict_canonical::decode_canonical_cbor_v1,Decoder::value,Decoder::argument,Decoder::length,Decoder::take,echo_edict_canonical::encode_canonical_cbor_v1,encode_integer,encode_type_value
//@ bounds="text heads 0x60..0x62 with symbolic payload bytes"
//@ desc="Edict: text strings: invalid UTF-8 rejected, valid text re-encodes to itself"
proof! {
    #[cfg_attr(kani, kani::stub(alloc::fmt::format, crate::stubs::fmt_format))]
    fn c12_edict_text_small() { l1_at(0x60, 1); l1_at(0x61, 2); l1_at(0x62, 3); l1_at(0x61, 3); reach!(); }
}


// ---- one (head, exact length) case per harness: a single decode (which re-encodes internally) + re-encode
//@ also=C13 tier=off timeout=900 mem=12 bits=0 unwind=12 unwindset="memcmp=12" fns=echo_edict_canonical::decode_canonical_cbor_v1,Decoder::value,Decoder::argument,Decoder::length,Decoder::take,echo_edict_canonical::encode_canonical_cbor_v1,encode_value,encode_integer,encode_type_value
//@ bounds="head 0x00 (uint immediate 0x00) with exactly 0 following byte(s), all values"
//@ desc="Edict CBOR uint immediate 0x00: accepted => re-encodes to exactly the same 1 byte(s) (non-minimal forms rejected, not normalised); nothing panics"
proof! {
    #[cfg_attr(kani, kani::stub(alloc::fmt::format, crate::stubs::fmt_format))]
    fn c12_edict_exact_00() { l1_at(0x00, 1); reach!(); }
}

//@ also=C13 tier=off timeout=900 mem=12 bits=0 unwind=12 unwindset="memcmp=12" fns=echo_edict_canonical::decode_canonical_cbor_v1,Decoder::value,Decoder::argument,Decoder::length,Decoder::take,echo_edict_canonical::encode_canonical_cbor_v1,encode_value,encode_integer,encode_type_value
//@ bounds="head 0x17 (uint immediate 0x17) with exactly 0 following byte(s), all values"
//@ desc="Edict CBOR uint immediate 0x17: accepted => re-encodes to exactly the same 1 byte(s) (non-minimal forms rejected, not normalised); nothing panics"
proof! {
    #[cfg_attr(kani, kani::stub(alloc::fmt::format, crate::stubs::fmt_format))]
    fn c12_edict_exact_17() { l1_at(0x17, 1); reach!(); }
}

//@ also=C13 tier=off timeout=900 mem=12 bits=8 unwind=12 unwindset="memcmp=12" fns=echo_edict_canonical::decode_canonical_cbor_v1,Decoder::value,Decoder::argument,Decoder::length,Decoder::take,echo_edict_canonical::encode_canonical_cbor_v1,encode_value,encode_integer,encode_type_value
//@ bounds="head 0x18 (uint, 1-byte argument) with exactly 1 following byte(s), all values"
//@ desc="Edict CBOR uint, 1-byte argument: accepted => re-encodes to exactly the same 2 byte(s) (non-minimal forms rejected, not normalised); nothing panics"
proof! {
    #[cfg_attr(kani, kani::stub(alloc::fmt::format, crate::stubs::fmt_format))]
    fn c12_edict_exact_18() { l1_at(0x18, 2); reach!(); }
}

//@ also=C13 tier=off timeout=900 mem=12 bits=16 unwind=12 unwindset="memcmp=12" fns=echo_edict_canonical::decode_canonical_cbor_v1,Decoder::value,Decoder::argument,Decoder::length,Decoder::take,echo_edict_canonical::encode_canonical_cbor_v1,encode_value,encode_integer,encode_type_value
//@ bounds="head 0x19 (uint, 2-byte argument) with exactly 2 following byte(s), all values"
//@ desc="Edict CBOR uint, 2-byte argument: accepted => re-encodes to exactly the same 3 byte(s) (non-minimal forms rejected, not normalised); nothing panics"
proof! {
    #[cfg_attr(kani, kani::stub(alloc::fmt::format, crate::stubs::fmt_format))]
    fn c12_edict_exact_19() { l1_at(0x19, 3); reach!(); }
}

//@ also=C13 tier=off timeout=900 mem=12 bits=32 unwind=12 unwindset="memcmp=12" fns=echo_edict_canonical::decode_canonical_cbor_v1,Decoder::value,Decoder::argument,Decoder::length,Decoder::take,echo_edict_canonical::encode_canonical_cbor_v1,encode_value,encode_integer,encode_type_value
//@ bounds="head 0x1a (uint, 4-byte argument) with exactly 4 following byte(s), all values"
//@ desc="Edict CBOR uint, 4-byte argument: accepted => re-encodes to exactly the same 5 byte(s) (non-minimal forms rejected, not normalised); nothing panics"
proof! {
    #[cfg_attr(kani, kani::stub(alloc::fmt::format, crate::stubs::fmt_format))]
    fn c12_edict_exact_1a() { l1_at(0x1a, 5); reach!(); }
}

//@ also=C13 tier=off timeout=900 mem=12 bits=64 unwind=12 unwindset="memcmp=12" fns=echo_edict_canonical::decode_canonical_cbor_v1,Decoder::value,Decoder::argument,Decoder::length,Decoder::take,echo_edict_canonical::encode_canonical_cbor_v1,encode_value,encode_integer,encode_type_value
//@ bounds="head 0x1b (uint, 8-byte argument) with exactly 8 following byte(s), all values"
//@ desc="Edict CBOR uint, 8-byte argument: accepted => re-encodes to exactly the same 9 byte(s) (non-minimal forms rejected, not normalised); nothing panics"
proof! {
    #[cfg_attr(kani, kani::stub(alloc::fmt::format, crate::stubs::fmt_format))]
    fn c12_edict_exact_1b() { l1_at(0x1b, 9); reach!(); }
}

//@ also=C13 tier=off timeout=900 mem=12 bits=0 unwind=12 unwindset="memcmp=12" fns=echo_edict_canonical::decode_canonical_cbor_v1,Decoder::value,Decoder::argument,Decoder::length,Decoder::take,echo_edict_canonical::encode_canonical_cbor_v1,encode_value,encode_integer,encode_type_value
//@ bounds="head 0x20 (nint immediate 0x20) with exactly 0 following byte(s), all values"
//@ desc="Edict CBOR nint immediate 0x20: accepted => re-encodes to exactly the same 1 byte(s) (non-minimal forms rejected, not normalised); nothing panics"
proof! {
    #[cfg_attr(kani, kani::stub(alloc::fmt::format, crate::stubs::fmt_format))]
    fn c12_edict_exact_20() { l1_at(0x20, 1); reach!(); }
}

//@ also=C13 tier=off timeout=900 mem=12 bits=8 unwind=12 unwindset="memcmp=12" fns=echo_edict_canonical::decode_canonical_cbor_v1,Decoder::value,Decoder::argument,Decoder::length,Decoder::take,echo_edict_canonical::encode_canonical_cbor_v1,encode_value,encode_integer,encode_type_value
//@ bounds="head 0x38 (nint, 1-byte argument) with exactly 1 following byte(s), all values"
//@ desc="Edict CBOR nint, 1-byte argument: accepted => re-encodes to exactly the same 2 byte(s) (non-minimal forms rejected, not normalised); nothing panics"
proof! {
    #[cfg_attr(kani, kani::stub(alloc::fmt::format, crate::stubs::fmt_format))]
    fn c12_edict_exact_38() { l1_at(0x38, 2); reach!(); }
}

//@ also=C13 tier=off timeout=900 mem=12 bits=64 unwind=12 unwindset="memcmp=12" fns=echo_edict_canonical::decode_canonical_cbor_v1,Decoder::value,Decoder::argument,Decoder::length,Decoder::take,echo_edict_canonical::encode_canonical_cbor_v1,encode_value,encode_integer,encode_type_value
//@ bounds="head 0x3b (nint, 8-byte argument) with exactly 8 following byte(s), all values"
//@ desc="Edict CBOR nint, 8-byte argument: accepted => re-encodes to exactly the same 9 byte(s) (non-minimal forms rejected, not normalised); nothing panics"
proof! {
    #[cfg_attr(kani, kani::stub(alloc::fmt::format, crate::stubs::fmt_format))]
    fn c12_edict_exact_3b() { l1_at(0x3b, 9); reach!(); }
}

//@ also=C13 tier=off timeout=900 mem=12 bits=0 unwind=12 unwindset="memcmp=12" fns=echo_edict_canonical::decode_canonical_cbor_v1,Decoder::value,Decoder::argument,Decoder::length,Decoder::take,echo_edict_canonical::encode_canonical_cbor_v1,encode_value,encode_integer,encode_type_value
//@ bounds="head 0xf4 (false) with exactly 0 following byte(s), all values"
//@ desc="Edict CBOR false: accepted => re-encodes to exactly the same 1 byte(s) (non-minimal forms rejected, not normalised); nothing panics"
proof! {
    #[cfg_attr(kani, kani::stub(alloc::fmt::format, crate::stubs::fmt_format))]
    fn c12_edict_exact_f4() { l1_at(0xf4, 1); reach!(); }
}

//@ also=C13 tier=off timeout=900 mem=12 bits=0 unwind=12 unwindset="memcmp=12" fns=echo_edict_canonical::decode_canonical_cbor_v1,Decoder::value,Decoder::argument,Decoder::length,Decoder::take,echo_edict_canonical::encode_canonical_cbor_v1,encode_value,encode_integer,encode_type_value
//@ bounds="head 0xf5 (true) with exactly 0 following byte(s), all values"
//@ desc="Edict CBOR true: accepted => re-encodes to exactly the same 1 byte(s) (non-minimal forms rejected, not normalised); nothing panics"
proof! {
    #[cfg_attr(kani, kani::stub(alloc::fmt::format, crate::stubs::fmt_format))]
    fn c12_edict_exact_f5() { l1_at(0xf5, 1); reach!(); }
}

//@ also=C13 tier=off timeout=900 mem=12 bits=0 unwind=12 unwindset="memcmp=12" fns=echo_edict_canonical::decode_canonical_cbor_v1,Decoder::value,Decoder::argument,Decoder::length,Decoder::take,echo_edict_canonical::encode_canonical_cbor_v1,encode_value,encode_integer,encode_type_value
//@ bounds="head 0xf6 (null) with exactly 0 following byte(s), all values"
//@ desc="Edict CBOR null: accepted => re-encodes to exactly the same 1 byte(s) (non-minimal forms rejected, not normalised); nothing panics"
proof! {
    #[cfg_attr(kani, kani::stub(alloc::fmt::format, crate::stubs::fmt_format))]
    fn c12_edict_exact_f6() { l1_at(0xf6, 1); reach!(); }
}

//@ also=C13 tier=off timeout=900 mem=12 bits=0 unwind=12 unwindset="memcmp=12" fns=echo_edict_canonical::decode_canonical_cbor_v1,Decoder::value,Decoder::argument,Decoder::length,Decoder::take,echo_edict_canonical::encode_canonical_cbor_v1,encode_value,encode_integer,encode_type_value
//@ bounds="head 0x40 (empty byte string) with exactly 0 following byte(s), all values"
//@ desc="Edict CBOR empty byte string: accepted => re-encodes to exactly the same 1 byte(s) (non-minimal forms rejected, not normalised); nothing panics"
proof! {
    #[cfg_attr(kani, kani::stub(alloc::fmt::format, crate::stubs::fmt_format))]
    fn c12_edict_exact_40() { l1_at(0x40, 1); reach!(); }
}

//@ also=C13 tier=off timeout=900 mem=12 bits=16 unwind=12 unwindset="memcmp=12" fns=echo_edict_canonical::decode_canonical_cbor_v1,Decoder::value,Decoder::argument,Decoder::length,Decoder::take,echo_edict_canonical::encode_canonical_cbor_v1,encode_value,encode_integer,encode_type_value
//@ bounds="head 0x42 (2-byte byte string) with exactly 2 following byte(s), all values"
//@ desc="Edict CBOR 2-byte byte string: accepted => re-encodes to exactly the same 3 byte(s) (non-minimal forms rejected, not normalised); nothing panics"
proof! {
    #[cfg_attr(kani, kani::stub(alloc::fmt::format, crate::stubs::fmt_format))]
    fn c12_edict_exact_42() { l1_at(0x42, 3); reach!(); }
}

/// Decode-only: this (head, total length) must be rejected whatever the other bytes are.
#[inline(always)]
fn must_reject(head: u8, len: usize) {
    let mut buf: [u8; N] = kani::any();
    buf[0] = head;
    match decode_canonical_cbor_v1(&buf[..len]) {
        Ok(v) => { core::mem::forget(v); assert!(false, "Edict: input that cannot be canonical was accepted"); }
        Err(e) => core::mem::forget(e),
    }
}

//@ also=C13 tier=off timeout=1500 mem=12 bits=300 unwind=12 unwindset="memcmp=12" fns=echo_edict_canonical::decode_canonical_cbor_v1,Decoder::value,Decoder::argument,Decoder::length,checked_collection_length
//@ bounds="items cut short, reserved/indefinite additional info, tags and unsupported simple values/floats - 18 (head, length) cases, every other byte symbolic"
//@ desc="Edict rejects malformed heads: truncated items, reserved/indefinite lengths, tags and unsupported simple values are typed errors, never accepted, never a panic"
proof! {
    #[cfg_attr(kani, kani::stub(alloc::fmt::format, crate::stubs::fmt_format))]
    fn c12_edict_rejects_malformed() {
        must_reject(0x18, 1); must_reject(0x19, 2); must_reject(0x1b, 8); must_reject(0x41, 1); must_reject(0x81, 1); must_reject(0xa1, 1); must_reject(0x1c, 2); must_reject(0x1f, 2); must_reject(0x3c, 2); must_reject(0x5f, 2); must_reject(0x9f, 2); must_reject(0xbf, 2); must_reject(0xc0, 2); must_reject(0xe0, 1); must_reject(0xf7, 1); must_reject(0xf9, 3); must_reject(0xfb, 9); must_reject(0xff, 1);
        reach!();
    }
}

//@ also=C13 tier=off timeout=900 mem=4 bits=8 unwind=12 unwindset="memcmp=12" fns=echo_edict_canonical::decode_canonical_cbor_v1,Decoder::value,Decoder::argument,Decoder::length,checked_collection_length
//@ bounds="head 0x00 followed by its argument and exactly one trailing byte, all values"
//@ desc="Edict: a byte trailing an immediate integer is rejected, never ignored"
proof! {
    #[cfg_attr(kani, kani::stub(alloc::fmt::format, crate::stubs::fmt_format))]
    fn c12_edict_trailing_00() { must_reject(0x00, 2); reach!(); }
}

//@ also=C13 tier=off timeout=900 mem=4 bits=16 unwind=12 unwindset="memcmp=12" fns=echo_edict_canonical::decode_canonical_cbor_v1,Decoder::value,Decoder::argument,Decoder::length,checked_collection_length
//@ bounds="head 0x18 followed by its argument and exactly one trailing byte, all values"
//@ desc="Edict: a byte trailing a 1-byte-argument integer is rejected, never ignored"
proof! {
    #[cfg_attr(kani, kani::stub(alloc::fmt::format, crate::stubs::fmt_format))]
    fn c12_edict_trailing_18() { must_reject(0x18, 3); reach!(); }
}

//@ also=C13 tier=off timeout=900 mem=4 bits=8 unwind=12 unwindset="memcmp=12" fns=echo_edict_canonical::decode_canonical_cbor_v1,Decoder::value,Decoder::argument,Decoder::length,checked_collection_length
//@ bounds="head 0xf6 followed by its argument and exactly one trailing byte, all values"
//@ desc="Edict: a byte trailing null is rejected, never ignored"
proof! {
    #[cfg_attr(kani, kani::stub(alloc::fmt::format, crate::stubs::fmt_format))]
    fn c12_edict_trailing_f6() { must_reject(0xf6, 2); reach!(); }
}

//@ also=C13 tier=off timeout=900 mem=4 bits=8 unwind=12 unwindset="memcmp=12" fns=echo_edict_canonical::decode_canonical_cbor_v1,Decoder::value,Decoder::argument,Decoder::length,checked_collection_length
//@ bounds="head 0x40 followed by its argument and exactly one trailing byte, all values"
//@ desc="Edict: a byte trailing an empty byte string is rejected, never ignored"
proof! {
    #[cfg_attr(kani, kani::stub(alloc::fmt::format, crate::stubs::fmt_format))]
    fn c12_edict_trailing_40() { must_reject(0x40, 2); reach!(); }
}

