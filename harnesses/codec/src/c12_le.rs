//! C12 / C13 for the little-endian primitive codec (`echo_wasm_abi::codec::{Reader, Writer}`).
//! L2: decode(encode(v)) == v for every value; L1: accepted bytes re-encode to themselves for the
//! tagged forms (bool, option) and for canonical floats; totality: no read panics or runs past
//! the buffer for any byte string and any sequence of reads.
use crate::kani;
use echo_wasm_abi::codec::{canonicalize_f32, CodecError, Reader, Writer};

fn canonical_bits(b: u32) -> bool {
    let e = (b >> 23) & 0xff;
    let m = b & 0x7f_ffff;
    b != 0x8000_0000 && !(e == 0 && m != 0) && (!(e == 0xff && m != 0) || b == 0x7fc0_0000)
}

//@ also=C13 tier=quick timeout=600 mem=6 bits=200 unwind=9 unwindset="memcmp=34" fns=echo_wasm_abi::codec::Writer::write_u8,write_u16_le,write_u32_le,write_i32_le,write_i64_le,write_bool,write_f32_le,Reader::read_u8,read_u16_le,read_u32_le,read_i32_le,read_i64_le,read_bool,read_f32_le
//@ bounds="one value of each scalar type, all bit patterns (u8,u16,u32,i32,i64,bool,f32)"
//@ desc="LE scalars: read(write(v)) == v for every v (f32: == canonicalize(v), and the written bytes are the canonical pattern), sizes are 1/2/4/4/8/1/4 and nothing is left over"
proof! {
    fn c12_le_scalars_roundtrip() {
        let (a, b, c, d, e, f, g): (u8, u16, u32, i32, i64, bool, f32) =
            (kani::any(), kani::any(), kani::any(), kani::any(), kani::any(), kani::any(), kani::any());
        let mut w = Writer::with_capacity(32);
        w.write_u8(a); w.write_u16_le(b); w.write_u32_le(c); w.write_i32_le(d); w.write_i64_le(e); w.write_bool(f); w.write_f32_le(g);
        let v = w.into_vec();
        assert!(v.len() == 24);
        let mut r = Reader::new(&v);
        assert!(r.read_u8() == Ok(a));
        assert!(r.read_u16_le() == Ok(b));
        assert!(r.read_u32_le() == Ok(c));
        assert!(r.read_i32_le() == Ok(d));
        assert!(r.read_i64_le() == Ok(e));
        assert!(r.read_bool() == Ok(f));
        let fb = u32::from_le_bytes([v[20], v[21], v[22], v[23]]);
        assert!(canonical_bits(fb), "write_f32_le wrote a non-canonical float");
        // the documented canonical form, written out on the bit pattern (not the codec's own helper):
        // NaN -> 0x7fc00000, +-0 and subnormals -> +0, everything else unchanged
        let gb = g.to_bits();
        let (ge, gm) = ((gb >> 23) & 0xff, gb & 0x7f_ffff);
        let want = if ge == 0xff && gm != 0 { 0x7fc0_0000 } else if ge == 0 { 0 } else { gb };
        assert!(fb == want, "write_f32_le wrote a value other than the canonical form of its argument");
        assert!(canonicalize_f32(g).to_bits() == want);
        match r.read_f32_le() { Ok(x) => assert!(x.to_bits() == fb), Err(_) => assert!(false) }
        assert!(r.remaining() == 0);
        assert!(r.read_u8() == Err(CodecError::OutOfBounds));
        core::mem::forget(v);
        reach!();
    }
}

//@ also=C13 tier=quick timeout=300 mem=6 bits=48 unwind=6 fns=echo_wasm_abi::codec::Reader::read_bool,Reader::read_option,Writer::write_bool,Writer::write_option,Reader::read_f32_le,Writer::write_f32_le
//@ bounds="every 1-byte bool image, every 2-byte option<u8> image, every 4-byte float image"
//@ desc="accepted => canonical: a bool/option tag other than 00/01 is rejected and accepted images re-encode to the same bytes; read_f32_le always returns a canonical float and canonical images re-encode to themselves"
proof! {
    fn c12_le_tagged_forms_canonical() {
        let img: [u8; 2] = kani::any();
        let mut r = Reader::new(&img[..1]);
        match r.read_bool() {
            Ok(v) => { let mut w = Writer::with_capacity(1); w.write_bool(v); let o = w.into_vec(); assert!(o.len() == 1 && o[0] == img[0]); core::mem::forget(o); }
            Err(e) => assert!(e == CodecError::InvalidBoolTag && img[0] > 1),
        }
        let mut r = Reader::new(&img);
        match r.read_option(|r| r.read_u8()) {
            Ok(v) => {
                let mut w = Writer::with_capacity(2);
                assert!(w.write_option(v, |w, x| { w.write_u8(x); Ok(()) }).is_ok());
                let o = w.into_vec();
                assert!(o.len() == 2 - r.remaining() && o[0] == img[0] && (o.len() == 1 || o[1] == img[1]));
                core::mem::forget(o);
            }
            Err(_) => assert!(img[0] > 1),
        }
        let fimg: [u8; 4] = kani::any();
        let mut r = Reader::new(&fimg);
        match r.read_f32_le() {
            Ok(x) => {
                assert!(canonical_bits(x.to_bits()), "read_f32_le returned a non-canonical float");
                if canonical_bits(u32::from_le_bytes(fimg)) {
                    let mut w = Writer::with_capacity(4); w.write_f32_le(x); let o = w.into_vec();
                    assert!(o.len() == 4 && o[0] == fimg[0] && o[1] == fimg[1] && o[2] == fimg[2] && o[3] == fimg[3]);
                    core::mem::forget(o);
                }
            }
            Err(_) => assert!(false),
        }
        reach!();
    }
}

//@ also=C13 tier=quick timeout=600 mem=6 bits=40 unwind=6 unwindset="memcmp=6" fns=echo_wasm_abi::codec::Writer::write_len_prefixed_bytes,Reader::read_len_prefixed_bytes
//@ bounds="payload of symbolic length 0..3 with symbolic bytes; max_len symbolic"
//@ desc="length-prefixed bytes: round trip returns exactly the payload when len <= max_len, LengthTooLarge otherwise; 4+len bytes consumed"
proof! {
    fn c12_le_len_prefixed_roundtrip() {
        let buf: [u8; 3] = kani::any();
        let n: usize = kani::any();
        kani::assume(n <= 3);
        let max: usize = kani::any();
        let mut w = Writer::with_capacity(8);
        assert!(w.write_len_prefixed_bytes(&buf[..n]).is_ok());
        let v = w.into_vec();
        assert!(v.len() == 4 + n);
        let mut r = Reader::new(&v);
        match r.read_len_prefixed_bytes(max) {
            Ok(s) => {
                assert!(n <= max && s.len() == n && r.remaining() == 0);
                let mut i = 0;
                while i < 3 { if i < n { assert!(s[i] == buf[i]); } i += 1; }
            }
            Err(e) => assert!(e == CodecError::LengthTooLarge && n > max),
        }
        core::mem::forget(v);
        reach!();
    }
}

//@ tier=quick timeout=900 mem=8 bits=120 unwind=5 unwindset="memcmp=10" fns=echo_wasm_abi::codec::Reader::take,Reader::read_u8,read_u16_le,read_u32_le,read_i32_le,read_i64_le,read_f32_le,read_bool,read_len_prefixed_bytes,read_byte_array,read_option
//@ bounds="any byte string of length 0..10, any sequence of 3 reads drawn from 10 read operations (symbolic op codes, symbolic max_len)"
//@ desc="C13: no read panics, overflows or indexes out of range; the cursor never passes the end; a failed read reports OutOfBounds/LengthTooLarge/InvalidBoolTag"
proof! {
    fn c13_le_reader_total() {
        let buf: [u8; 10] = kani::any();
        let n: usize = kani::any();
        kani::assume(n <= 10);
        let mut r = Reader::new(&buf[..n]);
        let mut k = 0;
        while k < 3 {
            let before = r.remaining();
            let op: u8 = kani::any();
            let ok = match op % 10 {
                0 => r.read_u8().is_ok(),
                1 => r.read_u16_le().is_ok(),
                2 => r.read_u32_le().is_ok(),
                3 => r.read_i32_le().is_ok(),
                4 => r.read_i64_le().is_ok(),
                5 => r.read_f32_le().is_ok(),
                6 => r.read_bool().is_ok(),
                7 => r.read_len_prefixed_bytes(kani::any()).is_ok(),
                8 => r.read_byte_array::<3>().is_ok(),
                _ => r.read_option(|r| r.read_u16_le()).is_ok(),
            };
            assert!(r.remaining() <= before && r.remaining() <= n);
            if !ok && op % 10 <= 5 { assert!(r.remaining() == before, "failed fixed-width read moved the cursor"); }
            k += 1;
        }
        reach!();
    }
}

//@ tier=quick timeout=900 mem=8 bits=64 unwind=10 fns=echo_wasm_abi::codec::Reader::read_list,Writer::write_list
//@ bounds="any 8-byte string (4-byte count + 4 payload bytes), element = u8"
//@ desc="C13/C12: read_list never panics or pre-allocates beyond the remaining input; Ok(v) => v.len() == declared count <= remaining, and write_list(v) reproduces the consumed bytes"
proof! {
    fn c13_le_read_list_bounded() {
        let buf: [u8; 8] = kani::any();
        let mut r = Reader::new(&buf);
        let count = u32::from_le_bytes([buf[0], buf[1], buf[2], buf[3]]) as usize;
        match r.read_list(|r| r.read_u8()) {
            Ok(v) => {
                assert!(v.len() == count && count <= 4 && v.capacity() <= 4 && r.remaining() == 4 - count);
                let mut w = Writer::with_capacity(8);
                assert!(w.write_list(&v, |w, x| { w.write_u8(*x); Ok(()) }).is_ok());
                let o = w.into_vec();
                assert!(o.len() == 4 + count);
                let mut i = 0;
                while i < 8 { if i < o.len() { assert!(o[i] == buf[i]); } i += 1; }
                core::mem::forget((o, v));
            }
            Err(e) => assert!(e == CodecError::OutOfBounds && count > 4),
        }
        reach!();
    }
}
