use vh_codec as LIB;
include!("../../common/replay_main.rs");
