#!/usr/bin/env python3
"""dbg.py <crate> <harness> [outdir]: codegen-free relink of an existing symtab in a kept run dir
(harnesses/<crate>/target/runs/*/<harness>.symtab.out) into <outdir>/<harness>.out and print the cbmc command."""
import glob, json, os, subprocess, sys
sys.path.insert(0, os.path.join(os.path.dirname(os.path.abspath(__file__)), "..", "driver"))
import vcheck
crate, name = sys.argv[1], sys.argv[2]
out = sys.argv[3] if len(sys.argv) > 3 else "/root/logs"
sym = sorted(glob.glob(f"{vcheck.HARN}/{crate}/target/runs/*/{name}.symtab.out"), key=os.path.getmtime)[-1]
metas = sorted(glob.glob(f"{vcheck.HARN}/{crate}/target/kani/**/vh_{crate}*.kani-metadata.json", recursive=True), key=os.path.getmtime)
meta = [h for h in json.load(open(metas[-1]))["proof_harnesses"] if h["pretty_name"].split("::")[-1] == name][0]
g = os.path.join(out, name + ".out")
steps = [
    ["goto-cc", sym, vcheck.kani_lib_c(), os.path.join(vcheck.VERIF, "driver", "clib", "memcmp_words.c"), "-o", g],
    ["goto-cc", g, "--function", meta["mangled_name"], "-o", g],
    ["goto-instrument", "--add-library", "--no-malloc-may-fail", g, g],
    ["goto-instrument", "--generate-function-body-options", "assert-false-assume-false", "--generate-function-body", ".*", "--drop-unused-functions", g, g],
    ["goto-instrument", "--ensure-one-backedge-per-target", g, g],
]
for s in steps:
    subprocess.run(s, check=True, stdout=subprocess.DEVNULL, stderr=subprocess.DEVNULL)
print("cbmc " + " ".join(vcheck.CBMC_BASE) + " --unwinding-assertions " + g)
