#!/usr/bin/env python3
"""Confirms a seeded defect in a scratch worktree (never in /repo):
  1. patch applies to a clean tree and the workspace test suite (baseline command) still passes
     (only the tests BASELINE.json lists as always_fail / dropped offline may fail);
  2. the demonstration fails with the patch and passes without it.
Writes <seed>/confirm.json. Usage:
  confirm_seed.py --wt DIR --seed DIR --demo-file F --demo-dest RELDIR --demo-cmd "cargo test ..." [--skip-suite]
"""
import argparse, json, os, re, shutil, subprocess, sys, time
ap = argparse.ArgumentParser()
ap.add_argument("--wt", required=True); ap.add_argument("--seed", required=True)
ap.add_argument("--demo-file", action="append", required=True); ap.add_argument("--demo-dest", required=True)
ap.add_argument("--demo-cmd", required=True); ap.add_argument("--skip-suite", action="store_true")
a = ap.parse_args()
env = dict(os.environ, CARGO_NET_OFFLINE="true", CARGO_TERM_COLOR="never")
def sh(cmd, **kw):
    return subprocess.run(cmd, shell=True, cwd=a.wt, env=env, stdout=subprocess.PIPE, stderr=subprocess.STDOUT, text=True, **kw)
base = json.load(open("/root/.vp/BASELINE.json"))
allowed = set(base.get("always_fail", [])) | set(base.get("dropped_after_offline", [])) | set(base.get("flaky", []))
res = {"worktree": a.wt, "at": time.strftime("%Y-%m-%dT%H:%M:%S")}
sh("git checkout -- . && git clean -fdq -- crates tests xtask")
p = sh(f"git apply {a.seed}/patch.diff")
res["patch_applies"] = p.returncode == 0
if p.returncode != 0:
    print(p.stdout); sys.exit(1)
if not a.skip_suite:
    t0 = time.time()
    p = sh("cargo nextest run --workspace --no-fail-fast --tool-config-file pb:/w/lib/nextest.toml --profile pb --test-threads 8 --offline")
    out = p.stdout
    fails = set()
    for m in re.finditer(r"^\s*(?:FAIL|SIGABRT|SIGSEGV|TIMEOUT|LEAK-FAIL|ABORT)\s+\[[^\]]*\]\s+(?:\(\s*\d+/\d+\)\s+)?(\S+)\s+(\S+)", out, re.M):
        fails.add(f"{m.group(1)}::{m.group(2)}")
    summ = re.findall(r"Summary.*", out)
    res["suite"] = dict(cmd="cargo nextest run --workspace ... (baseline command)", summary=summ[-1] if summ else None,
                        failed=sorted(fails), unexpected_failures=sorted(f for f in fails if f not in allowed),
                        wall_s=round(time.time() - t0))
    built = "Summary" in out
    res["suite"]["ran"] = built
    if not built:
        res["suite"]["tail"] = out[-2000:]
for f in a.demo_file:
    os.makedirs(os.path.join(a.wt, a.demo_dest), exist_ok=True)
    shutil.copy(os.path.join(a.seed, f), os.path.join(a.wt, a.demo_dest, os.path.basename(f)))
p = sh(a.demo_cmd); res["demo_with_patch"] = dict(rc=p.returncode, tail=p.stdout[-1200:])
sh(f"git apply -R {a.seed}/patch.diff")
p = sh(a.demo_cmd); res["demo_without_patch"] = dict(rc=p.returncode, tail=p.stdout[-600:])
for f in a.demo_file:
    try: os.unlink(os.path.join(a.wt, a.demo_dest, os.path.basename(f)))
    except OSError: pass
ok = res["demo_with_patch"]["rc"] != 0 and res["demo_without_patch"]["rc"] == 0 and (a.skip_suite or (res["suite"]["ran"] and not res["suite"]["unexpected_failures"]))
res["confirmed"] = ok
json.dump(res, open(os.path.join(a.seed, "confirm.json"), "w"), indent=1)
print(json.dumps({k: v for k, v in res.items() if k != "demo_with_patch"}, indent=1)[:3000])
sys.exit(0 if ok else 1)
