#!/usr/bin/env python3
"""store_seed.py <seed-src-dir> <id> <property> <needs-text> <detected-by-text>: copies a confirmed seed into /verif/seeded/<id>/."""
import json, os, shutil, sys
src, sid, prop, needs, det = sys.argv[1:6]
dst = os.path.join(os.path.dirname(os.path.dirname(os.path.abspath(__file__))), "seeded", sid)
os.makedirs(dst, exist_ok=True)
for f in os.listdir(src):
    p = os.path.join(src, f)
    if os.path.isfile(p) and os.path.getsize(p) < 400_000 and not f.endswith(".log"):
        shutil.copy(p, os.path.join(dst, f))
conf = json.load(open(os.path.join(src, "confirm.json"))) if os.path.exists(os.path.join(src, "confirm.json")) else {}
meta = dict(id=sid, property=prop, breaks=prop, needs_to_manifest=needs,
            confirmed=conf.get("confirmed"), what_i_ran=dict(
                suite=conf.get("suite", {}).get("summary"), suite_unexpected_failures=conf.get("suite", {}).get("unexpected_failures"),
                demo_with_patch_rc=conf.get("demo_with_patch", {}).get("rc"), demo_without_patch_rc=conf.get("demo_without_patch", {}).get("rc"),
                tool="tools/confirm_seed.py in a scratch worktree of /repo (never /repo itself)"),
            detected_by=det)
json.dump(meta, open(os.path.join(dst, "meta.json"), "w"), indent=1)
print("stored", dst, os.listdir(dst))
