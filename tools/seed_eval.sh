#!/bin/bash
# seed_eval.sh <patch.diff> <PROP> [only-substr] : apply a seeded change to /repo, run the check, ALWAYS revert.
# Prints the verdict lines; exit status is the check's.
set -u
patch=$1; prop=$2; only=${3:-}
cd /repo || exit 9
if ! git diff --quiet; then echo "seed_eval: /repo has uncommitted changes, refusing"; exit 9; fi
git apply "$patch" || { echo "seed_eval: patch does not apply"; exit 9; }
trap 'git -C /repo checkout -- . ; echo "seed_eval: /repo restored"' EXIT
cd /verif
if [ -n "$only" ]; then ./check "$prop" --tier quick --only "$only"; else ./check "$prop" --tier quick; fi
rc=$?
echo "seed_eval: check exit=$rc"
exit $rc
