#!/bin/sh
# Run once after a fresh restore (offline). Everything the checks need is rebuilt by the
# checks themselves from /repo's working tree; setup verifies the toolchain is there, checks
# the two environment models the harnesses rely on, and regenerates MANIFEST.json.
set -e
cd "$(dirname "$0")"
export CARGO_NET_OFFLINE=true
command -v cbmc >/dev/null
command -v goto-cc >/dev/null
command -v goto-instrument >/dev/null
cargo kani --version >/dev/null 2>&1
python3 driver/genmanifest.py >/dev/null
for c in math codec core; do
  [ -f harnesses/$c/Cargo.toml ] || continue
  cp /repo/Cargo.lock harnesses/$c/Cargo.lock
done
# (1) the word-wise memcmp linked into every harness == the byte-wise one (decided by CBMC)
( cd driver/clib && cbmc memcmp_words.c memcmp_equiv.c --function equiv32 --unwind 33 --unwinding-assertions >/dev/null )
# (2) the container model used under feature echo_verif_flat == std's B-tree containers on
#     random operation sequences (translator validation, DESIGN R6)
TC=$(sed -n 's/^channel *= *"\(.*\)"/\1/p' /repo/rust-toolchain.toml)
( cd harnesses/core && RUSTUP_TOOLCHAIN=${TC:-stable} cargo build --offline --quiet --bin flatdiff --features flat --target-dir target/native 2>/dev/null \
  && ./target/native/debug/flatdiff 50000 >/dev/null ) || { echo "setup: container-model validation failed"; exit 1; }
echo "setup ok"
