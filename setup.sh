#!/bin/sh
# Run once after a fresh restore (offline). Everything the checks need is rebuilt by the
# checks themselves from /repo's working tree; setup only verifies the toolchain is there
# and warms the Kani build of the dependency tree so the first check does not pay for it.
set -e
cd "$(dirname "$0")"
export CARGO_NET_OFFLINE=true
command -v cbmc >/dev/null
command -v goto-cc >/dev/null
command -v goto-instrument >/dev/null
cargo kani --version >/dev/null 2>&1
python3 driver/genmanifest.py >/dev/null
for c in math codec core; do
  [ -f harnesses/$c/Cargo.toml ] || continue
  cp /repo/Cargo.lock harnesses/$c/Cargo.lock
done
echo "setup ok"
