#!/usr/bin/env python3
"""Writes MANIFEST.json from driver/claims.json (single source for claimed / not-applicable)."""
import json, os
V = os.path.dirname(os.path.dirname(os.path.abspath(__file__)))
c = json.load(open(os.path.join(V, "driver", "claims.json")))
checks = []
for pid in sorted(k for k in c if k.startswith("C") and "not_applicable" not in c[k]):  # a claim with a not_applicable text is held back
    e = c[pid]
    checks.append(dict(
        property_id=pid,
        quick_cmd=f"./check {pid} --tier quick",
        thorough_cmd=f"./check {pid} --tier thorough",
        evidence_file=f"/verif/evidence/{pid}.json",
        replay_cmd_template=f"./check {pid} --replay {{path}}",
        engine="E-KANI",
        level_claimed=dict(category="model_checking", text=e["level_text"], design_ref=e.get("design_ref", "DESIGN.md section 4, " + pid)),
        level_note=e["level_note"],
        technique=e.get("technique", "bounded symbolic execution of the real functions (Kani 0.68 -> CBMC 6.11 -> CaDiCaL), counterexamples replayed natively"),
    ))
na = [dict(property_id=k, reason=c[k]["not_applicable"]) for k in sorted(c) if k.startswith("C") and "not_applicable" in c[k]]
m = dict(
    version=1,
    setup_cmd="./setup.sh",
    hooks=c["_hooks"],
    engines=[dict(name="E-KANI", path="/verif/driver/vcheck.py", serves_properties=[x["property_id"] for x in checks],
                  kind_free_text="cargo kani --only-codegen over out-of-tree harness crates (path-deps on /repo/crates/*), then goto-cc/goto-instrument/cbmc per harness in parallel; SAT verdict per harness; concrete playback + native replay (dev and release) before any VIOLATION")],
    checks=checks,
    notes=c["_notes"],
    not_applicable=na,
)
json.dump(m, open(os.path.join(V, "MANIFEST.json"), "w"), indent=1)
print("claimed:", [x["property_id"] for x in checks], "n/a:", [x["property_id"] for x in na])
