#!/usr/bin/env python3
"""Driver for the solver-based checks of flyingrobots/echo (see /verif/DESIGN.md).

    ./check <Cxx> [--tier quick|thorough] [--only SUBSTR] [--jobs N] [--replay FILE]

For one property it
  1. regenerates the encoding from /repo's current working tree: `cargo kani --only-codegen`
     on every harness crate that holds harnesses named cxx_* (path-deps on /repo/crates/*);
  2. links and instruments each harness's GOTO program the way kani-driver does and runs
     CBMC (CaDiCaL) on it, several harnesses in parallel, each under a time and memory cap;
  3. classifies every CBMC property result (assertions, panics, overflow/bounds checks,
     unwinding assertions, the final reach cover);
  4. for a failed obligation: obtains the concrete counterexample with Kani's concrete
     playback and replays it against the real build (native dev + release profiles, real
     BLAKE3, std containers); only a reproduced failure is reported as VIOLATION;
  5. writes evidence/<id>.json.

Exit status: 0 all obligations discharged (known findings are printed, not failed);
1 a reproduced violation not listed in known_findings.json; 2 inconclusive.
"""
import argparse
import concurrent.futures as cf
import fcntl
import json
import os
import re
import resource
import shutil
import subprocess
import sys
import threading
import time

VERIF = os.path.dirname(os.path.dirname(os.path.abspath(__file__)))
HARN = os.path.join(VERIF, "harnesses")
EVID = os.path.join(VERIF, "evidence")
REPO = "/repo"
CRATES = ["math", "codec", "core"]
KANI_LIB_C = None  # resolved lazily

CBMC_BASE = [
    "--no-standard-checks", "--no-malloc-may-fail", "--no-self-loops-to-assumptions",
    "--object-bits", "16", "--sat-solver", "cadical", "--slice-formula",
]
# `--no-standard-checks`: CBMC's own C-level instrumentation (pointer validity, array bounds,
# division by zero, ...) is off. Every Rust-level failure - integer overflow, slice/array index
# out of range, division by zero, unwrap/expect/explicit panic, capacity overflow - is an explicit
# assertion in the GOTO program Kani generates from MIR and stays checked, as do the harness
# assertions and the unwinding assertions. What is given up is the memory-safety audit of `unsafe`
# code inside std and dependencies (the crates under test `deny`/`forbid` unsafe code); that
# audit costs 2-3x in symbolic-execution time and most of the formula.
# R5: Kani's default `--nan-check` is deliberately not passed: producing a NaN is not a
# panic in Rust and the canonical-NaN property is asserted on results by the harnesses.

ENV = dict(os.environ, CARGO_NET_OFFLINE="true", CARGO_TERM_COLOR="never")
ENV.pop("RUSTFLAGS", None)


def mem_budget_gb():
    """Sum of per-harness memory caps that may run at once: 75% of RAM (no swap here)."""
    env = os.environ.get("VERIF_MEM_GB")
    if env:
        return float(env)
    try:
        for line in open("/proc/meminfo"):
            if line.startswith("MemAvailable:"):
                return max(4.0, int(line.split()[1]) / (1 << 20) * 0.75)
    except OSError:
        pass
    return 16.0


def log(*a):
    print(*a, flush=True)


def repo_toolchain():
    try:
        t = open(os.path.join(REPO, "rust-toolchain.toml")).read()
        m = re.search(r'channel\s*=\s*"([^"]+)"', t)
        return m.group(1) if m else None
    except OSError:
        return None


# --------------------------------------------------------------------------- harness table

ANN = re.compile(r"^\s*//@\s*(.*)$")
KV = re.compile(r'(\w+)=("([^"]*)"|\S+)')


def parse_harnesses(crate):
    """Harness annotations live next to the code: `//@ key=value ...` lines above proof!{}."""
    out = []
    srcdir = os.path.join(HARN, crate, "src")
    if not os.path.isdir(srcdir):
        return out
    for fn in sorted(os.listdir(srcdir)):
        if not fn.endswith(".rs") or fn in ("lib.rs", "main.rs"):
            continue
        ann = {}
        in_proof = False
        for ln, line in enumerate(open(os.path.join(srcdir, fn)), 1):
            m = ANN.match(line)
            if m:
                for k, v, q in KV.findall(m.group(1)):
                    ann[k] = q if v.startswith('"') else v
                continue
            t = line.strip()
            m3 = re.match(r"\w+!\((c\d\d_\w+),", t)  # harness-generating macro: name is the first argument
            if m3 and not t.startswith("macro_rules"):
                h = dict(ann)
                h.update(name=m3.group(1), crate=crate, file=f"harnesses/{crate}/src/{fn}", line=ln, module=fn[:-3])
                out.append(h)
                ann = {}
                continue
            if t.startswith("proof!") or t.startswith("proof_h!"):
                in_proof = True
                t = t[t.index("!") + 1:].lstrip(" {")
                if not t:
                    continue
            if in_proof:
                m2 = re.match(r"fn (c\d\d\w*)\(\)", t)
                if m2:
                    h = dict(ann)
                    h.update(name=m2.group(1), crate=crate, file=f"harnesses/{crate}/src/{fn}", line=ln,
                             module=fn[:-3])
                    out.append(h)
                    ann = {}
                    in_proof = False
    return out


def select(prop, tier, only):
    pre = prop.lower() + "_"
    hs = []
    for c in CRATES:
        for h in parse_harnesses(c):
            also = [x.strip().lower() + "_" for x in h.get("also", "").split(",") if x.strip()]
            if not h["name"].startswith(pre) and pre not in also:
                continue
            if only and only not in h["name"]:
                continue
            t = h.get("tier", "quick")
            # tier=off harnesses are a record of what did not fit; they run only when named exactly
            if (t == "off" and only != h["name"]) or (t != "off" and tier == "quick" and t != "quick"):
                continue
            hs.append(h)
    return hs


# --------------------------------------------------------------------------- codegen

def kani_lib_c():
    global KANI_LIB_C
    if KANI_LIB_C is None:
        home = os.path.expanduser("~/.kani")
        for d in sorted(os.listdir(home)):
            p = os.path.join(home, d, "library", "kani", "kani_lib.c")
            if os.path.exists(p):
                KANI_LIB_C = p
        if KANI_LIB_C is None:
            raise SystemExit("kani_lib.c not found under ~/.kani")
    return KANI_LIB_C


def crate_features(crate):
    return {"core": ["flat"]}.get(crate, [])


def codegen(crate, prop, rundir, names=None):
    """cargo kani --only-codegen for the harnesses of one property in one crate; returns
    {harness name: metadata entry} with goto files copied into rundir."""
    cdir = os.path.join(HARN, crate)
    shutil.copyfile(os.path.join(REPO, "Cargo.lock"), os.path.join(cdir, "Cargo.lock"))
    tdir = os.path.join(cdir, "target")
    os.makedirs(tdir, exist_ok=True)
    lock = open(os.path.join(tdir, ".vcheck.lock"), "w")
    fcntl.flock(lock, fcntl.LOCK_EX)
    try:
        t0 = time.time()
        cmd = ["cargo", "kani", "--lib", "--only-codegen", "--no-assertion-reach-checks", "-Z", "stubbing",
               "--target-dir", os.path.join(tdir, "kani")]
        for n in (names or [prop.lower() + "_"]):
            cmd += ["--harness", n]
        feats = crate_features(crate)
        if feats:
            cmd += ["--features", ",".join(feats)]
        p = subprocess.run(cmd, cwd=cdir, env=ENV, stdout=subprocess.PIPE, stderr=subprocess.STDOUT, text=True)
        open(os.path.join(rundir, f"codegen-{crate}.log"), "w").write(p.stdout)
        if p.returncode != 0:
            log(p.stdout[-4000:])
            raise SystemExit(f"INCONCLUSIVE property={prop} reason=codegen-failed crate={crate}")
        metas = []
        for root, _, files in os.walk(os.path.join(tdir, "kani")):
            for f in files:
                if f.endswith(".kani-metadata.json") and f.startswith("vh_" + crate):
                    fp = os.path.join(root, f)
                    metas.append((os.path.getmtime(fp), fp))
        if not metas:
            raise SystemExit(f"INCONCLUSIVE property={prop} reason=no-kani-metadata crate={crate}")
        # One metadata file per distinct harness selection is kept by cargo (the selection is part
        # of the compiler arguments): take the newest one that holds every requested harness.
        meta = None
        for _, fp in sorted(metas, reverse=True):
            try:
                cand = json.load(open(fp))
            except ValueError:
                continue
            have = {h["pretty_name"].split("::")[-1] for h in cand.get("proof_harnesses", [])}
            if names is None or set(names) <= have:
                if all(os.path.exists(h["goto_file"]) for h in cand["proof_harnesses"]):
                    meta = cand
                    break
        if meta is None:
            raise SystemExit(f"INCONCLUSIVE property={prop} reason=no-kani-metadata-for-selection crate={crate}")
        out = {}
        for h in meta["proof_harnesses"]:
            name = h["pretty_name"].split("::")[-1]
            dst = os.path.join(rundir, name + ".symtab.out")
            shutil.copyfile(h["goto_file"], dst)
            h["goto_file"] = dst
            out[name] = h
        return out, time.time() - t0
    finally:
        fcntl.flock(lock, fcntl.LOCK_UN)
        lock.close()


# --------------------------------------------------------------------------- one harness

def limit(mem_gb):
    def f():
        b = int(mem_gb * (1 << 30))
        resource.setrlimit(resource.RLIMIT_AS, (b, b))
        os.setsid()
    return f


def run(cmd, log_fp, timeout, mem_gb):
    t0 = time.time()
    try:
        p = subprocess.Popen(cmd, stdout=subprocess.PIPE, stderr=log_fp, preexec_fn=limit(mem_gb))
        try:
            out, _ = p.communicate(timeout=timeout)
        except subprocess.TimeoutExpired:
            try:
                os.killpg(p.pid, 9)
            except ProcessLookupError:
                pass
            p.communicate()
            return None, "timeout", time.time() - t0
        return out, p.returncode, time.time() - t0
    except OSError as e:
        return None, f"oserror:{e}", time.time() - t0


def resolve_unwindset(spec, goto, lf, timeout, mem):
    """`substr=N;substr=N` -> CBMC loop ids. A loop is selected when `substr` occurs in its id
    (e.g. `memcmp`), in the pretty name of the function that contains it, or in its source file path; ids are read from
    `cbmc --show-loops` on the very binary being checked, so they follow /repo's source."""
    out, rc, _ = run(["cbmc", "--show-loops", "--json-ui", goto], lf, timeout, mem)
    loops = []
    try:
        for e in json.loads(out):
            if isinstance(e, dict) and "loops" in e:
                loops = e["loops"]
    except (ValueError, TypeError):
        return None
    pairs = []
    for item in spec.split(";"):
        if not item.strip():
            continue
        sub, n = item.rsplit("=", 1)
        for lp in loops:
            fn = lp.get("sourceLocation", {}).get("function", "")
            fl = lp.get("sourceLocation", {}).get("file", "")
            if sub in lp["name"] or sub in fn or sub in fl:
                pairs.append(f'{lp["name"]}:{int(n)}')
    return ",".join(pairs)


def verify_one(h, meta, rundir, scale):
    """Link, instrument and model-check one harness. Returns a result dict."""
    name = h["name"]
    res = dict(harness=name, file=h["file"], line=h["line"], desc=h.get("desc", ""), fns=h.get("fns", ""),
               bounds=h.get("bounds", ""), bits=int(h.get("bits", "0")), status="?", checks=0, failed=[],
               reach=None, solver_s=0.0, wall_s=0.0, sat_calls=0)
    timeout = float(h.get("timeout", "300")) * scale
    mem = float(h.get("mem", "10"))
    g = os.path.join(rundir, name + ".out")
    logp = os.path.join(rundir, name + ".log")
    lf = open(logp, "wb")
    t0 = time.time()
    mangled = meta["mangled_name"]
    steps = [
        ["goto-cc", meta["goto_file"], kani_lib_c(), os.path.join(VERIF, "driver", "clib", "memcmp_words.c"), "-o", g],
        ["goto-cc", g, "--function", mangled, "-o", g],
        ["goto-instrument", "--add-library", "--no-malloc-may-fail", g, g],
        ["goto-instrument", "--generate-function-body-options", "assert-false-assume-false",
         "--generate-function-body", ".*", "--drop-unused-functions", g, g],
        ["goto-instrument", "--ensure-one-backedge-per-target", g, g],
    ]
    for s in steps:
        out, rc, _ = run(s, lf, timeout, mem)
        if rc != 0:
            res.update(status="inconclusive", reason=f"{s[0]} rc={rc}", wall_s=time.time() - t0)
            return res
    cmd = ["cbmc"] + CBMC_BASE
    uw = meta["attributes"].get("unwind_value")
    if h.get("unwind"):
        uw = int(h["unwind"])
    if uw is not None:
        cmd += ["--unwind", str(uw)]
    if h.get("unwindset"):
        us = resolve_unwindset(h["unwindset"], g, lf, timeout, mem)
        if us:
            cmd += ["--unwindset", us]
        res["unwindset"] = h["unwindset"]
        res["unwindset_resolved"] = us
    cmd += ["--unwinding-assertions"]
    if h.get("cbmc"):
        cmd += h["cbmc"].split()
    cmd += ["--verbosity", "9", g, "--json-ui"]  # verbosity 9: runtime / formula-size statistics
    res["cbmc_cmd"] = " ".join(cmd[:-2])
    out, rc, dt = run(cmd, lf, timeout, mem)
    lf.close()
    res["wall_s"] = round(time.time() - t0, 2)
    res["_bin"] = g
    res["_cmd"] = cmd[:-1]  # without --json-ui
    res["_limits"] = (timeout, mem)
    if rc == "timeout":
        res.update(status="inconclusive", reason=f"timeout>{timeout:.0f}s")
        return res
    if out is None or rc not in (0, 10):
        tail = ""
        try:
            tail = (out or b"")[-600:].decode("utf8", "replace")
        except Exception:
            pass
        res.update(status="inconclusive", reason=f"cbmc rc={rc} (out of memory or internal error)")
        return res
    open(os.path.join(rundir, name + ".json"), "wb").write(out)
    try:
        doc = json.loads(out)
    except ValueError:
        res.update(status="inconclusive", reason="unparsable cbmc output")
        return res
    results = None
    for e in doc:
        if "result" in e:
            results = e["result"]
        mt = e.get("messageText", "")
        try:
            if mt.startswith("Runtime decision procedure:"):
                res["solver_s"] += float(mt.split(":")[1].strip().rstrip("s"))
            elif mt.startswith("Runtime Symex:"):
                res["symex_s"] = res.get("symex_s", 0.0) + float(mt.split(":")[1].strip().rstrip("s"))
            elif mt.endswith(" clauses") and " variables, " in mt:
                v, c = mt.replace(" clauses", "").split(" variables, ")
                res["sat_variables"] = max(res.get("sat_variables", 0), int(v))
                res["sat_clauses"] = max(res.get("sat_clauses", 0), int(c))
            elif mt.startswith("size of program expression:"):
                res["ssa_steps"] = int(mt.split(":")[1].split()[0])
        except ValueError:
            pass
        if mt.startswith("Solving with"):
            res["sat_calls"] += 1
        if e.get("messageType") == "ERROR":
            res.update(status="inconclusive", reason="cbmc error: " + mt[:300])
            return res
    if results is None:
        res.update(status="inconclusive", reason="no result block")
        return res
    res["solver_s"] = round(res["solver_s"], 3)
    failed, unwind_fail, unsupported = [], [], []
    for r in results:
        cls = r.get("sourceLocation", {}).get("propertyClass") or r["property"].split(".")[-2]
        st = r["status"]
        desc = r.get("description", "")
        loc = r.get("sourceLocation", {})
        where = f'{loc.get("file", "?")}:{loc.get("line", "?")} in {loc.get("function", "?")}'
        if cls == "cover":
            if "reach-end" in desc:
                res["reach"] = (st == "FAILURE")  # CBMC: negated cover fails <=> reachable
            continue
        res["checks"] += 1
        if st == "SUCCESS":
            continue
        item = dict(cls=cls, desc=desc, where=where, status=st, property=r["property"])
        if cls == "unwind" or "unwinding assertion" in desc:
            unwind_fail.append(item)
        elif cls == "unsupported_construct" or "is not currently supported by Kani" in desc:
            unsupported.append(item)
        else:
            failed.append(item)
    # `expect_panic=<substr>`: the harness assumes an input on which the code under test must
    # panic (Kani cannot catch a panic; the path ends there). Failed checks whose location or
    # description contains <substr> are that expected panic: at least one must be reachable
    # (non-vacuity), the harness's own "returned normally" assertion must hold, and the end of
    # the harness is allowed - in fact expected - to be unreachable.
    exp = h.get("expect_panic")
    expected_hits = []
    if exp:
        expected_hits = [x for x in failed if exp in x["where"] or exp in x["desc"]]
        failed = [x for x in failed if x not in expected_hits]
        res["expected_panics"] = len(expected_hits)
    res["failed"] = failed
    res["checks_ok"] = res["checks"] - len(failed) - len(unwind_fail) - len(unsupported) - len(expected_hits)
    if exp and not unwind_fail and not unsupported and not failed:
        if expected_hits:
            res["status"] = "ok"
            res["reach"] = True  # the expected panic site is the reachability witness
        else:
            res.update(status="inconclusive", reason="vacuous: expected panic is not reachable")
        return res
    if unwind_fail:
        res.update(status="inconclusive", reason="unwinding assertion failed: " + unwind_fail[0]["where"],
                   unwind_failed=unwind_fail)
    elif unsupported:
        res.update(status="inconclusive", reason="unsupported construct reachable: " + unsupported[0]["desc"][:200])
    elif failed:
        res["status"] = "failed"
    elif res["reach"] is not True:
        res.update(status="inconclusive", reason="vacuous: end of harness not reachable (reach cover unsatisfied)")
    else:
        res["status"] = "ok"
    return res


# --------------------------------------------------------------------------- counterexample + replay

def concrete_playback(h, rundir, res=None):
    """Ask Kani for the concrete values of the failing run. Returns hex string or None."""
    cdir = os.path.join(HARN, h["crate"])
    cmd = ["cargo", "kani", "--lib", "-Z", "concrete-playback", "--concrete-playback=print", "-Z", "stubbing",
           "--harness", h["module"] + "::" + h["name"], "--exact", "--target-dir", os.path.join(cdir, "target", "kani-pb")]
    feats = crate_features(h["crate"])
    if feats:
        cmd += ["--features", ",".join(feats)]
    extra = []
    if h.get("unwind"):
        extra += ["--unwind", h["unwind"]]
    if res and res.get("unwindset_resolved"):
        extra += ["--unwindset", res["unwindset_resolved"]]
    if extra:
        cmd += ["-Z", "unstable-options", "--cbmc-args"] + extra
    try:
        p = subprocess.run(cmd, cwd=cdir, env=ENV, stdout=subprocess.PIPE, stderr=subprocess.STDOUT, text=True,
                           timeout=float(h.get("timeout", "300")) * 4 + 600)
    except subprocess.TimeoutExpired:
        return None
    open(os.path.join(rundir, h["name"] + ".playback.log"), "w").write(p.stdout)
    # The generated unit test lists one `vec![..]` of little-endian bytes per kani::any().
    m = re.search(r"let concrete_vals: Vec<Vec<u8>> = vec!\[(.*?)\n\s*\];", p.stdout, re.S)
    if not m:
        return None
    hexs = ""
    for v in re.findall(r"vec!\[([0-9,\s]*)\]", m.group(1)):
        for b in v.replace(" ", "").split(","):
            if b:
                hexs += "%02x" % int(b)
    return hexs


def _value_bytes(v):
    """CBMC trace value -> little-endian bytes (what kani::any::<T>() consumed)."""
    if v is None:
        return b""
    if "elements" in v:  # arrays
        return b"".join(_value_bytes(e.get("value")) for e in v["elements"])
    if "members" in v:  # structs (tuples, newtypes)
        return b"".join(_value_bytes(m.get("value")) for m in v["members"])
    bits = v.get("binary")
    if not bits:
        return b""
    n = (len(bits) + 7) // 8
    return int(bits, 2).to_bytes(n, "little")


def trace_counterexample(res, rundir):
    """Second CBMC run on the same binary with --trace: the values returned by kani::any_raw_*
    in execution order are exactly the byte stream the native shim's any() consumes."""
    g = res.get("_bin")
    if not g or not os.path.exists(g):
        return None
    timeout, mem = res["_limits"]
    cmd = res["_cmd"] + ["--trace"]
    for x in res["failed"][:4]:  # only the obligations that failed (not an expected panic, not the reach cover)
        cmd += ["--property", x["property"]]
    cmd += ["--json-ui"]
    lf = open(os.path.join(rundir, res["harness"] + ".trace.log"), "wb")
    out, rc, _ = run(cmd, lf, timeout * 2, mem)
    lf.close()
    if out is None:
        return None
    try:
        doc = json.loads(out)
    except ValueError:
        return None
    want = {x["property"] for x in res["failed"]}
    for e in doc:
        for r in e.get("result", []) if isinstance(e, dict) else []:
            if r.get("status") != "FAILURE" or "trace" not in r or r["property"] not in want:
                continue
            hexs = ""
            for st in r["trace"]:
                if st.get("stepType") != "assignment":
                    continue
                fn = st.get("sourceLocation", {}).get("function", "")
                if fn.startswith("kani::any_raw_") and st.get("lhs", "").startswith("goto_symex$$return_value"):
                    hexs += _value_bytes(st.get("value")).hex()
            res["counterexample_property"] = r["property"]
            return hexs
    return None


def native_build(crate, rundir, profiles=("dev",)):
    """Builds the native replay binary. The dev profile (the semantics Kani models) is always
    built; release only on request (it costs a full optimised build of the crates under test)."""
    cdir = os.path.join(HARN, crate)
    env = dict(ENV)
    tc = repo_toolchain()
    if tc:
        env["RUSTUP_TOOLCHAIN"] = tc
    ok = True
    for prof in profiles:
        cmd = ["cargo", "build", "--offline", "--bin", "replay", "--target-dir", os.path.join(cdir, "target", "native")]
        if prof == "release":
            cmd.append("--release")
        p = subprocess.run(cmd, cwd=cdir, env=env, stdout=subprocess.PIPE, stderr=subprocess.STDOUT, text=True)
        open(os.path.join(rundir, f"native-{crate}-{prof}.log"), "w").write(p.stdout)
        ok = ok and p.returncode == 0
    return ok


def native_replay(h, hexs, timeout=120, profiles=("dev",)):
    """Runs the harness body natively. Returns dict profile -> 'panic'|'pass'|'assume'|'other:<rc>'."""
    cdir = os.path.join(HARN, h["crate"])
    out = {}
    for prof, sub in (("dev", "debug"), ("release", "release")):
        exe = os.path.join(cdir, "target", "native", sub, "replay")
        if profiles is not None and prof not in profiles:
            continue
        try:
            p = subprocess.run([exe, h["name"], hexs], stdout=subprocess.PIPE, stderr=subprocess.STDOUT, text=True,
                               timeout=timeout, preexec_fn=limit(8))
            rc = p.returncode
            txt = p.stdout[-1500:]
        except subprocess.TimeoutExpired:
            rc, txt = "timeout", ""
        except OSError as e:
            rc, txt = f"oserror {e}", ""
        if rc == 0:
            v = "pass"
        elif rc == 77:
            v = "assume"
        elif rc == 101 or (isinstance(rc, int) and rc < 0) or rc in (134, 139, "timeout"):
            v = "panic" if rc == 101 else f"abort:{rc}"
        else:
            v = f"other:{rc}"
        out[prof] = dict(verdict=v, output=txt)
    return out


# --------------------------------------------------------------------------- known findings

def load_known(prop):
    p = os.path.join(VERIF, "known_findings.json")
    if not os.path.exists(p):
        return []
    doc = json.load(open(p))
    return [f for f in doc.get("findings", []) if f.get("property") == prop and f.get("status", "open") == "open"]


def match_known(known, res):
    """A finding is keyed by harness (the role) and a substring of the failing check."""
    for f in known:
        if f.get("harness") != res["harness"]:
            continue
        pats = f.get("check_contains", [])
        if all(any(p in (x["desc"] + " " + x["where"]) for p in pats) for x in res["failed"]):
            return f
    return None


# --------------------------------------------------------------------------- main

def main():
    ap = argparse.ArgumentParser()
    ap.add_argument("prop")
    ap.add_argument("--tier", default=os.environ.get("VERIF_TIER", "quick"), choices=["quick", "thorough"])
    ap.add_argument("--only", default=None)
    ap.add_argument("--jobs", type=int, default=int(os.environ.get("VERIF_JOBS", "0")))
    ap.add_argument("--replay", default=None)
    ap.add_argument("--keep", action="store_true")
    ap.add_argument("--timeout-scale", type=float, default=float(os.environ.get("VERIF_TIMEOUT_SCALE", "1")))
    a = ap.parse_args()
    prop = a.prop.upper()
    seed = int(os.environ.get("VERIF_SEED", "0") or 0)
    t_start = time.time()

    if a.replay:
        rp = json.load(open(a.replay))
        h = dict(name=rp["harness"], crate=rp["crate"])
        rd = os.path.join(HARN, h["crate"], "target", "runs", f"replay-{os.getpid()}")
        os.makedirs(rd, exist_ok=True)
        if not native_build(h["crate"], rd, profiles=("dev", "release")):
            log("INCONCLUSIVE native build failed")
            sys.exit(2)
        r = native_replay(h, rp["bytes_hex"], profiles=("dev", "release"))
        log(json.dumps(r, indent=1))
        rep = any(v["verdict"] == "panic" or v["verdict"].startswith("abort") for v in r.values())
        if rep:
            log(f"VIOLATION property={prop} replay={a.replay}")
            sys.exit(1)
        sys.exit(0)

    hs = select(prop, a.tier, a.only)
    if not hs:
        log(f"INCONCLUSIVE property={prop} reason=no-harnesses")
        sys.exit(2)
    rundirs = {}
    metas = {}
    codegen_s = 0.0
    for crate in sorted({h["crate"] for h in hs}):
        rd = os.path.join(HARN, crate, "target", "runs", f"{prop}-{os.getpid()}")
        os.makedirs(rd, exist_ok=True)
        rundirs[crate] = rd
        m, dt = codegen(crate, prop, rd, sorted(h["name"] for h in hs if h["crate"] == crate))
        codegen_s += dt
        metas.update(m)
        log(f"[{prop}] codegen crate={crate} harnesses={len(m)} {dt:.1f}s")
    missing = [h["name"] for h in hs if h["name"] not in metas]
    if missing:
        log(f"INCONCLUSIVE property={prop} reason=harness-not-generated {missing}")
        sys.exit(2)

    # seed rotates the launch order only (everything selected still runs)
    hs.sort(key=lambda h: h["name"])
    if hs:
        k = seed % len(hs)
        hs = hs[k:] + hs[:k]
    # longest first within the rotation keeps the tail short
    hs.sort(key=lambda h: -float(h.get("timeout", "300")))
    jobs = a.jobs or max(1, min(len(hs), (os.cpu_count() or 4) - 2))
    budget = mem_budget_gb()
    results = []
    lock = threading.Lock()
    cond = threading.Condition(lock)
    used = [0.0, 0]  # GB reserved, running

    def worker(h):
        need = min(float(h.get("mem", "10")), budget)
        with cond:
            while used[1] >= jobs or (used[1] > 0 and used[0] + need > budget):
                cond.wait()
            used[0] += need
            used[1] += 1
        try:
            return verify_one(h, metas[h["name"]], rundirs[h["crate"]], a.timeout_scale)
        finally:
            with cond:
                used[0] -= need
                used[1] -= 1
                cond.notify_all()

    with cf.ThreadPoolExecutor(max_workers=max(jobs, len(hs))) as ex:
        futs = {ex.submit(worker, h): h for h in hs}
        for f in cf.as_completed(futs):
            r = f.result()
            results.append(r)
            log(f"[{prop}] {r['harness']}: {r['status']} checks={r['checks']} reach={r['reach']} "
                f"{r['wall_s']}s" + (f" -- {r.get('reason', '')}" if r["status"] == "inconclusive" else "")
                + ("".join(f"\n      FAILED {x['cls']}: {x['desc']} @ {x['where']}" for x in r["failed"][:6])))
    results.sort(key=lambda r: r["harness"])
    byname = {h["name"]: h for h in hs}

    # failed obligations: counterexample, native replay, known-finding match
    known = load_known(prop)
    violations, known_hits, inconclusive = [], [], [r for r in results if r["status"] == "inconclusive"]
    failed = [r for r in results if r["status"] == "failed"]
    built = set()
    os.makedirs(os.path.join(EVID, "replay"), exist_ok=True)
    for r in failed:
        h = byname[r["harness"]]
        rd = rundirs[h["crate"]]
        hexs = trace_counterexample(r, rd)
        if hexs is None:
            hexs = concrete_playback(h, rd, r)
        if hexs is None:
            r["status"] = "inconclusive"
            r["reason"] = "solver reported a failed check but no concrete counterexample could be extracted"
            inconclusive.append(r)
            continue
        if h["crate"] not in built:
            if not native_build(h["crate"], rd):
                r["status"] = "inconclusive"
                r["reason"] = "native replay build failed"
                inconclusive.append(r)
                continue
            built.add(h["crate"])
        nr = native_replay(h, hexs)
        reproduced = any(v["verdict"] == "panic" or v["verdict"].startswith("abort") for v in nr.values())
        if not reproduced or a.tier == "thorough" or os.environ.get("VERIF_REPLAY_RELEASE") == "1":
            # the release profile (what users run) is tried when dev does not reproduce, and always in thorough
            if native_build(h["crate"], rd, profiles=("release",)):
                nr.update(native_replay(h, hexs, profiles=("release",)))
                reproduced = any(v["verdict"] == "panic" or v["verdict"].startswith("abort") for v in nr.values())
        r["counterexample_hex"] = hexs
        r["native"] = {k: v["verdict"] for k, v in nr.items()}
        rp = os.path.join(EVID, "replay", f"{prop}-{r['harness']}.json")
        json.dump(dict(property=prop, harness=r["harness"], crate=h["crate"], bytes_hex=hexs,
                       failed_checks=r["failed"], native=nr), open(rp, "w"), indent=1)
        r["replay"] = rp
        if not reproduced:
            r["status"] = "inconclusive"
            r["reason"] = f"counterexample does not reproduce natively ({r['native']}): stub/model/harness suspect"
            inconclusive.append(r)
            continue
        kf = match_known(known, r)
        if kf:
            r["status"] = "known"
            r["known_id"] = kf["id"]
            known_hits.append((kf, r))
        else:
            r["status"] = "violation"
            violations.append(r)

    for r in results:
        b = r.pop("_bin", None)
        r.pop("_cmd", None)
        r.pop("_limits", None)
        if b:
            try:
                os.unlink(b)
            except OSError:
                pass

    # ---- evidence
    ok = [r for r in results if r["status"] == "ok"]
    nontrivial = [r for r in results if r["reach"] is True and r["bits"] > 0]
    decided_props = sum(r.get("checks_ok", 0) for r in nontrivial if r["status"] in ("ok", "known"))
    samples = []
    for r in results:
        samples.append(dict(harness=r["harness"], statement=r["desc"], functions_encoded=r["fns"].split(",") if r["fns"] else [],
                            bounds=r["bounds"], symbolic_input_bits=r["bits"], cbmc_checks=r["checks"],
                            status=r["status"], reach_cover_satisfied=r["reach"], wall_s=r["wall_s"],
                            solver_s=r["solver_s"], symex_s=round(r.get("symex_s", 0.0), 2), ssa_steps=r.get("ssa_steps"),
                            sat_variables=r.get("sat_variables"), sat_clauses=r.get("sat_clauses"),
                            properties_proved=r.get("checks_ok"), source=f"{r['file']}:{r['line']}",
                            **({"counterexample_hex": r["counterexample_hex"], "native": r["native"]}
                               if "counterexample_hex" in r else {}),
                            **({"reason": r["reason"]} if "reason" in r else {})))
    fns = sorted({f for r in results for f in (r["fns"].split(",") if r["fns"] else [])})
    wall = time.time() - t_start
    extra = {}
    xp = os.path.join(VERIF, "driver", "claims.json")
    if os.path.exists(xp):
        extra = json.load(open(xp)).get(prop, {})
    ev = dict(
        property_id=prop, tier=a.tier, seed=seed, level="model_checking",
        coverage=dict(
            evaluations=sum(max(1, r["sat_calls"]) for r in results),
            distinct_nontrivial=decided_props,
            rule=("a case is one CBMC property - a harness assertion, a Rust-level panic/overflow/bounds assertion or an "
                  "unwinding assertion in the GOTO program Kani compiled from /repo's working tree - decided by the SAT "
                  "solver for ALL values of the harness's symbolic inputs; it is counted as non-trivial when it was proved "
                  "(status SUCCESS), its harness quantifies over >0 symbolic input bits and the harness's final reach "
                  "cover is satisfiable (the assertion is not vacuously true); distinct = distinct (harness, property id) "
                  "pairs, counted from CBMC's result list; `obligations` counts harnesses, `evaluations` counts SAT calls"),
            nontrivial_harnesses=len(nontrivial),
            samples=samples,
            obligations=len(results), discharged=len(ok),
            queries_inconclusive=len(inconclusive), known_findings=len(known_hits),
            functions_encoded=fns,
            solver_time_s=round(sum(r["solver_s"] for r in results), 2),
            codegen_s=round(codegen_s, 1),
            cbmc_flags=" ".join(CBMC_BASE) + " --unwinding-assertions",
            checker_cmd=f"./check {prop} --tier {a.tier}",
            trusted_base=["rustc -> Kani 0.68 MIR codegen", "CBMC 6.11", "CaDiCaL", "harness oracles (harnesses/*/src)"]
            + extra.get("trusted_base", []),
            outside_the_claim=extra.get("outside", []),
            stubs=extra.get("stubs", []),
            exhaustive=False,
        ),
        assumptions=extra.get("assumptions", []) + [
            "bounds are those in each sample's `bounds`; unwinding assertions are on, so a loop running past its bound is reported, not truncated",
        ],
        wall_s=round(wall, 2),
        violations=len(violations),
    )
    os.makedirs(EVID, exist_ok=True)
    # a run restricted with --only is a development aid: it must not replace the property's evidence
    evname = f"{prop}.json" if not a.only else os.path.join("replay", f"partial-{prop}.json")
    os.makedirs(os.path.join(EVID, "replay"), exist_ok=True)
    json.dump(ev, open(os.path.join(EVID, evname), "w"), indent=1)

    # recorded findings that only a native run can exhibit (far beyond the byte bounds)
    for kf in known:
        nr = kf.get("native_replay")
        if not nr or a.only:
            continue
        rd = rundirs.get(nr["crate"]) or os.path.join(HARN, nr["crate"], "target", "runs", f"{prop}-{os.getpid()}")
        os.makedirs(rd, exist_ok=True)
        if nr["crate"] not in built:
            if not native_build(nr["crate"], rd):
                log(f"NOTE property={prop} {kf['id']}: native replay build failed; finding not re-confirmed this run")
                continue
            built.add(nr["crate"])
        out = native_replay(dict(name=nr["harness"], crate=nr["crate"]), nr.get("bytes_hex", ""))
        if any(v["verdict"] == "panic" or v["verdict"].startswith("abort") for v in out.values()):
            log(f"KNOWN-FINDING: property={prop} {kf['id']}: {kf['what']} (native replay of {nr['harness']}: "
                f"{ {k: v['verdict'] for k, v in out.items()} })")
        else:
            log(f"NOTE property={prop} {kf['id']} no longer reproduces natively ({ {k: v['verdict'] for k, v in out.items()} }); "
                f"move it to `fixed` in known_findings.json")
    for kf, r in known_hits:
        log(f"KNOWN-FINDING: property={prop} {kf['id']}: {kf['what']} (harness {r['harness']}, replay {r['replay']})")
    for r in violations:
        log(f"VIOLATION property={prop} replay={r['replay']}")
        for x in r["failed"][:4]:
            log(f"   failed check: {x['desc']} @ {x['where']}")
    for r in inconclusive:
        log(f"INCONCLUSIVE property={prop} harness={r['harness']} reason={r.get('reason')}")
    log(f"[{prop}] tier={a.tier} obligations={len(results)} discharged={len(ok)} known={len(known_hits)} "
        f"violations={len(violations)} inconclusive={len(inconclusive)} wall={wall:.1f}s")
    if not a.keep:
        for rd in rundirs.values():
            shutil.rmtree(rd, ignore_errors=True)
    if violations:
        sys.exit(1)
    if inconclusive:
        sys.exit(2)
    sys.exit(0)


if __name__ == "__main__":
    main()
