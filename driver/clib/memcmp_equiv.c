/* cbmc memcmp_words.c memcmp_equiv.c --function equiv32 --unwind 33 --unwinding-assertions */
#include <stddef.h>
int memcmp(const void *, const void *, size_t);
static int ref(const unsigned char *a, const unsigned char *b, size_t n)
{
  for(size_t i = 0; i < n; i++)
    if(a[i] != b[i])
      return a[i] < b[i] ? -1 : 1;
  return 0;
}
void equiv32(void)
{
  unsigned char a[32], b[32];
  int r = memcmp(a, b, 32), s = ref(a, b, 32);
  __CPROVER_assert((r < 0) == (s < 0) && (r > 0) == (s > 0), "memcmp(32) has the sign of the byte-wise comparison");
}
