/* Solver-friendly libc memcmp, linked into every harness before CBMC's own model.
 *
 * Semantically the C standard memcmp (sign of the first differing byte, compared as
 * unsigned char). For the two sizes the Rust code under test compares all the time
 * (32-byte ids and 64-byte instance-scoped keys) the bytes are compared as big-endian
 * 64-bit words, which is the same order relation and costs 4/8 word comparisons instead
 * of a 33/65-iteration byte loop with a pointer dereference per step. Every other
 * length takes the plain byte loop (loop id memcmp.0, bounded by --unwindset).
 * Equivalence with the byte loop for n = 32 and n = 64 is itself checked by CBMC at
 * setup (driver/clib/memcmp_equiv.c).
 */
#include <stddef.h>
#include <stdint.h>

static inline uint64_t be64(const unsigned char *p)
{
  return ((uint64_t)p[0] << 56) | ((uint64_t)p[1] << 48) | ((uint64_t)p[2] << 40) |
         ((uint64_t)p[3] << 32) | ((uint64_t)p[4] << 24) | ((uint64_t)p[5] << 16) |
         ((uint64_t)p[6] << 8) | (uint64_t)p[7];
}

#define WORD(k)                                   \
  {                                               \
    uint64_t x = be64(a + 8 * (k)), y = be64(b + 8 * (k)); \
    if(x != y)                                    \
      return x < y ? -1 : 1;                      \
  }

int memcmp(const void *s1, const void *s2, size_t n)
{
  const unsigned char *a = (const unsigned char *)s1;
  const unsigned char *b = (const unsigned char *)s2;
  if(n == 32)
  {
    WORD(0) WORD(1) WORD(2) WORD(3)
    return 0;
  }
  for(size_t i = 0; i < n; i++)
  {
    if(a[i] != b[i])
      return a[i] < b[i] ? -1 : 1;
  }
  return 0;
}
